#!/bin/sh
# background sweep: every property at the given tier with a range of seeds; prints only what needs attention
TIER="${1:-quick}"; FROM="${2:-100}"; TO="${3:-110}"
DIR="$(cd "$(dirname "$0")" && pwd)"
for seed in $(seq "$FROM" "$TO"); do
  for p in ${PROPS:-C01 C02 C03 C04 C05 C06 C07 C08 C09 C10 C11 C12 C15 C16 C17 C18 C19 C20}; do
    VERIF_SEED=$seed "$DIR/check" $p "$TIER" 2>&1 | grep -E "^VIOLATION|^hepsim|oracle=|MACHINERY|KNOWN|^  " | cut -c1-400
  done
done
