#!/bin/bash
# tools/regress_mutants.sh: every seeded change against the quick check of the property it breaks
# (fast flavour only, tests not re-run); prints one CHECK line per change
VERIF="$(cd "$(dirname "$0")/.." && pwd)"
# newest rounds first (ORDER=old for the directory order)
LIST=$(ls -d "$VERIF"/seeded/*/ | awk '{n=$0; sub(/\/$/,"",n); k=substr(n,length(n),1); print k, $0}' | sort -r | awk '{print $2}')
[ "${ORDER:-}" = old ] && LIST=$(ls -d "$VERIF"/seeded/*/)
# STEP=n OFFSET=k: every n-th change only, starting with the k-th (a sample for a quick regression)
if [ -n "${STEP:-}" ]; then LIST=$(echo "$LIST" | awk -v n="$STEP" -v k="${OFFSET:-0}" '(NR - 1) % n == k'); fi
for d in $LIST; do
  m=$(basename "$d")
  SKIP_TESTS=1 FAST_ONLY=1 "$VERIF/tools/eval_mutant.sh" "$d" ${m:0:3} 2>&1 | grep -E "^(CHECK|RESULT)"
done
