#!/usr/bin/env python3
# tools/gen_sensitivity.py: regenerates the per-round tables at the end of DESIGN.md section 10 from
# seeded/*/meta.json (everything from the line "Round 1:" to the end of the file is replaced)
import glob, json, os, sys

root = os.path.dirname(os.path.dirname(os.path.abspath(__file__)))
rounds = {}
for f in sorted(glob.glob(os.path.join(root, 'seeded', '*', 'meta.json'))):
    d = json.load(open(f))
    rounds.setdefault(int(d.get('round', 1)), []).append(d)

def cell(s):
    return str(s).replace('|', '\\|').replace('\n', ' ')

out = []
for r in sorted(rounds):
    out.append('Round %d:\n' % r)
    out.append('| id | change | needs to manifest | caught by (oracle tags) | history |')
    out.append('|---|---|---|---|---|')
    for d in sorted(rounds[r], key=lambda d: d['id']):
        out.append('| %s | %s | %s | %s | %s |' % (d['id'], cell(d['change']), cell(d['needs_to_manifest']),
                                              cell(d['detected_by']), cell(d['history'])))
    out.append('')

path = os.path.join(root, 'DESIGN.md')
lines = open(path).read().split('\n')
start = next(i for i, l in enumerate(lines) if l.strip() == 'Round 1:')
open(path, 'w').write('\n'.join(lines[:start] + out).rstrip('\n') + '\n')
print('rounds:', {r: len(v) for r, v in rounds.items()})
