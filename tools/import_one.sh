#!/bin/bash
# tools/import_one.sh <agent worktree> <seeded id>: copies patch.diff, demo.cpp, helper headers and NOTES.md of one
# finished sub-agent into /verif/seeded/<id> (the worktree itself is removed by the caller)
W="$1"; ID="$2"; D=/verif/seeded/$ID
[ -f "$W/patch.diff" ] || { echo "no patch.diff in $W"; exit 1; }
mkdir -p "$D"
git -C "$W" diff -- include > "$D/patch.diff"
[ -s "$D/patch.diff" ] || cp "$W/patch.diff" "$D/patch.diff"
cp "$W/demo.cpp" "$W/NOTES.md" "$D/" 2>/dev/null
for f in "$W"/*.hpp "$W"/*.h; do [ -e "$f" ] && cp "$f" "$D/"; done
echo "imported $ID: $(grep -c '^[-+][^-+]' "$D/patch.diff") changed lines"
