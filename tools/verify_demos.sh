#!/bin/bash
# tools/verify_demos.sh <seeded dir>...: compiles demo.cpp / demo_*.cpp against the pristine /repo and
# against a scratch worktree with the patch applied; expects PASS (exit 0) and FAIL (exit != 0)
declare -A NP=( [C04A]=2 [C04B]=3 [C12B]=2 [C16B]=4 [C19A]=2 )
for SRC in "$@"; do
  SRC="$(cd "$SRC" && pwd)"; NAME=$(basename "$SRC")
  W=/var/tmp/mw/demo-$NAME; rm -rf "$W"; mkdir -p /var/tmp/mw
  git -C /repo worktree add -q --detach "$W" HEAD || continue
  git -C "$W" apply "$SRC/patch.diff" || { echo "DEMO $NAME patch does not apply"; git -C /repo worktree remove --force "$W"; continue; }
  DEMO=$(ls "$SRC"/demo*.cpp | head -1)
  np=$(cat "$SRC/np" 2>/dev/null || echo ${NP[$NAME]:-0})
  res=""
  for variant in pristine mutant; do
    inc=/repo/include; [ $variant = mutant ] && inc=$W/include
    bin=/var/tmp/mw/demo-$NAME-$variant
    if [ "$np" != 0 ]; then
      mpicxx -std=c++11 -O1 -I "$inc" -I "$SRC" "$DEMO" -o "$bin" 2>/var/tmp/mw/demo-$NAME.log || { res="$res $variant=compile-error"; continue; }
      timeout 120 mpirun --allow-run-as-root --oversubscribe -np $np "$bin" >/var/tmp/mw/demo-$NAME-$variant.out 2>&1; rc=$?
    else
      g++ -std=c++11 -O1 -I "$inc" -I "$SRC" "$DEMO" -o "$bin" -pthread 2>/var/tmp/mw/demo-$NAME.log || { res="$res $variant=compile-error"; continue; }
      timeout 300 "$bin" >/var/tmp/mw/demo-$NAME-$variant.out 2>&1; rc=$?
    fi
    res="$res $variant=exit$rc($(grep -c -E 'PASS' /var/tmp/mw/demo-$NAME-$variant.out)P/$(grep -c -E 'FAIL' /var/tmp/mw/demo-$NAME-$variant.out)F)"
    rm -f "$bin"
  done
  echo "DEMO $NAME$res"
  rm -f /var/tmp/mw/demo-$NAME*.out /var/tmp/mw/demo-$NAME.log
  git -C /repo worktree remove --force "$W"
done
