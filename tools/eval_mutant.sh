#!/bin/bash
# tools/eval_mutant.sh <dir with patch.diff [demo.cpp]> <property ...>
# Applies the patch to a scratch worktree of /repo (never to /repo itself), confirms that it compiles
# and that the 19 tests still pass (unless SKIP_TESTS=1), then runs the quick checks of the given
# properties against it and prints one line per check. Cleans up after itself.
set -u
VERIF="$(cd "$(dirname "$0")/.." && pwd)"
SRC="$(cd "$1" && pwd)"; shift
NAME="$(basename "$SRC")"
TAG=$(echo "$VERIF" | md5sum | cut -c1-6)
W=/var/tmp/mw/$TAG-$NAME
V=/var/tmp/mw/$TAG-verif-$NAME
rm -rf "$W" "$V"; mkdir -p /var/tmp/mw "$V"
git -C /repo worktree add -q --detach "$W" HEAD || exit 3
cleanup() { B=$(cd "$VERIF/sim" && REPO=$W make -s print-build-dir); rm -rf "$VERIF/sim/$B"; git -C /repo worktree remove --force "$W"; rm -rf "$V"; }
trap cleanup EXIT
if ! git -C "$W" apply "$SRC/patch.diff"; then echo "RESULT $NAME patch-does-not-apply"; exit 3; fi
if [ -z "${SKIP_TESTS:-}" ]; then
  ( cd "$W" && meson setup _build . >/dev/null 2>&1 && meson test -C _build >"$V/tests.log" 2>&1 )
  if grep -q "^Fail: *0" "$V/tests.log" && grep -q "^Ok: *19" "$V/tests.log"; then echo "TESTS $NAME 19 pass"; else echo "TESTS $NAME FAIL"; tail -5 "$V/tests.log"; fi
fi
cp "$VERIF/known_findings.txt" "$V/"
for P in "$@"; do
  OUT=$(REPO=$W HEPSIM_VERIF=$V HEPSIM_FAST_ONLY=${FAST_ONLY:-} "$VERIF/check" $P ${TIER:-quick} 2>&1)
  RC=$?
  echo "CHECK $NAME $P exit=$RC $(echo "$OUT" | grep -c '^VIOLATION') violation(s): $(echo "$OUT" | grep 'oracle=' | sed 's/ run=.*//' | tr '\n' ';' | cut -c1-300)"
  if [ $RC -ne 0 ] && [ -n "${KEEP_REPLAYS:-}" ]; then mkdir -p "$SRC/replays"; cp "$V"/replays/$P-* "$SRC/replays/" 2>/dev/null; fi
done
