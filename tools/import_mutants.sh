#!/bin/bash
# copies the deliverables of a finished sub-agent (/tmp/mut/<id>/MUTANT) into /verif/seeded/<id>{A,B}
for id in "$@"; do
  for ab in A B; do
    src=/tmp/mut/$id/MUTANT
    [ -f $src/$ab.diff ] || { echo "missing $src/$ab.diff"; continue; }
    d=/verif/seeded/$id$ab; mkdir -p $d
    cp $src/$ab.diff $d/patch.diff
    for f in $src/demo_$ab*; do [ -e "$f" ] && cp "$f" $d/; done
    cp $src/NOTES.md $d/NOTES.md
  done
done
