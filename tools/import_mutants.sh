#!/bin/bash
# tools/import_mutants.sh <root of agent worktrees> <suffix for A> <suffix for B> <id>...
# copies the deliverables of finished sub-agents (<root>/<id>/MUTANT) into /verif/seeded/<id><suffix>
ROOT="$1"; SA="$2"; SB="$3"; shift 3
for id in "$@"; do
  for pair in "A:$SA" "B:$SB"; do
    ab=${pair%%:*}; suf=${pair##*:}
    src=$ROOT/$id/MUTANT
    [ -f $src/$ab.diff ] || { echo "missing $src/$ab.diff"; continue; }
    d=/verif/seeded/$id$suf; mkdir -p $d
    cp $src/$ab.diff $d/patch.diff
    cp $src/demo_$ab.cpp $d/demo.cpp 2>/dev/null
    for f in $src/*.hpp $src/*.h; do [ -e "$f" ] && cp "$f" $d/; done
    cp $src/NOTES.md $d/NOTES.md
    [ -f $src/np_$ab ] && cp $src/np_$ab $d/np
  done
done
