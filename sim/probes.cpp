// hepsim - public hep-mc types fed directly with the values the simulator forces (numeric type
// chosen at run time). Used to tell "selector wrong" from "integrator uses the selector wrongly"
// (C09), for the u == 1 guard no libstdc++ engine can reach (C07) and for odd engine ranges (C10).
#include "engines.hpp"
#include "world.hpp"

#include "hep/mc.hpp"

#include <limits>

namespace sim
{

namespace
{

template <typename T>
u64 select_t(std::vector<ld> const& weights, u64 raw)
{
    std::vector<T> w;
    for (ld x : weights) w.push_back(static_cast<T>(x));
    hep::discrete_distribution<std::size_t, T> dist(w.begin(), w.end());

    Ctx c;
    c.forced[0] = raw;
    Ctx* const prev = current_ctx();
    current_ctx() = &c;
    ScriptEngine<64> e(1);
    u64 const r = dist(e);
    current_ctx() = prev;
    return r;
}

template <typename T>
VegasPointProbe vegas_point_t(std::vector<ld> const& grid, u64 bins, u64 dims, std::vector<ld> const& u)
{
    hep::vegas_pdf<T> pdf(dims, bins);
    for (u64 d = 0; d != dims; ++d)
    {
        for (u64 b = 0; b != bins + 1; ++b) pdf.set_bin_left(d, b, static_cast<T>(grid[d * (bins + 1) + b]));
    }
    std::vector<T> rn;
    for (ld x : u) rn.push_back(static_cast<T>(x));
    std::vector<std::size_t> bin(dims);
    hep::vegas_point<T> const point(rn, bin, pdf);
    VegasPointProbe r;
    for (auto b : point.bin()) r.bins.push_back(b);
    for (T x : point.point()) r.x.push_back(x);
    r.w = point.weight();
    return r;
}

template <typename T>
void usage_t(u64 lo, u64 hi, u64 samples, u64& predicted, u64& mn, u64& mx)
{
    RangeEngine::lo_ref() = lo;
    RangeEngine::hi_ref() = hi;
    predicted = hep::random_number_usage<T, RangeEngine>();

    Ctx c;
    c.counting = true;
    Ctx* const prev = current_ctx();
    current_ctx() = &c;
    RangeEngine e;
    mn = ~0ULL;
    mx = 0;

    // through the public iteration function: one call of a d-dimensional integrand costs d numbers
    auto f = [](hep::mc_point<T> const&) { return T(); };
    auto in = hep::make_integrand<T>(f, 1);

    for (u64 i = 0; i != samples; ++i)
    {
        u64 const before = c.draws;
        (void) hep::plain_iteration(in, 1, e);
        u64 const used = c.draws - before;
        if (used < mn) mn = used;
        if (used > mx) mx = used;
    }

    current_ctx() = prev;
    RangeEngine::lo_ref() = 0;
    RangeEngine::hi_ref() = ~0ULL;
}

template <typename T>
std::vector<ld> refine_weights_t(std::vector<ld> const& w, std::vector<ld> const& data, ld minw, ld beta)
{
    std::vector<T> a, b;
    for (ld x : w) a.push_back(static_cast<T>(x));
    for (ld x : data) b.push_back(static_cast<T>(x));
    std::vector<ld> r;
    for (T x : hep::multi_channel_refine_weights(a, b, static_cast<T>(minw), static_cast<T>(beta))) r.push_back(x);
    return r;
}

template <typename T>
std::vector<ld> refine_pdf_t(std::vector<ld> const& grid, u64 bins, u64 dims, ld alpha, std::vector<ld> const& data)
{
    hep::vegas_pdf<T> pdf(dims, bins);
    for (u64 d = 0; d != dims; ++d)
    {
        for (u64 b = 0; b != bins + 1; ++b) pdf.set_bin_left(d, b, static_cast<T>(grid[d * (bins + 1) + b]));
    }
    std::vector<T> dat;
    for (ld x : data) dat.push_back(static_cast<T>(x));
    hep::vegas_pdf<T> const n = hep::vegas_refine_pdf(pdf, static_cast<T>(alpha), dat);
    std::vector<ld> r;
    for (u64 d = 0; d != dims; ++d)
    {
        for (u64 b = 0; b != bins + 1; ++b) r.push_back(n.bin_left(d, b));
    }
    return r;
}

}

u64 probe_select(int nt, std::vector<ld> const& weights, u64 raw)
{
    if (nt == NT_F) return select_t<float>(weights, raw);
    if (nt == NT_D) return select_t<double>(weights, raw);
    return select_t<long double>(weights, raw);
}

VegasPointProbe probe_vegas_point(int nt, std::vector<ld> const& grid, u64 bins, u64 dims,
    std::vector<ld> const& u)
{
    if (nt == NT_F) return vegas_point_t<float>(grid, bins, dims, u);
    if (nt == NT_D) return vegas_point_t<double>(grid, bins, dims, u);
    return vegas_point_t<long double>(grid, bins, dims, u);
}

void probe_usage(int nt, u64 lo, u64 hi, u64 samples, u64& predicted, u64& measured_min, u64& measured_max)
{
    if (nt == NT_F) usage_t<float>(lo, hi, samples, predicted, measured_min, measured_max);
    else if (nt == NT_D) usage_t<double>(lo, hi, samples, predicted, measured_min, measured_max);
    else usage_t<long double>(lo, hi, samples, predicted, measured_min, measured_max);
}

std::vector<ld> probe_refine_weights(int nt, std::vector<ld> const& w, std::vector<ld> const& data, ld minw, ld beta)
{
    if (nt == NT_F) return refine_weights_t<float>(w, data, minw, beta);
    if (nt == NT_D) return refine_weights_t<double>(w, data, minw, beta);
    return refine_weights_t<long double>(w, data, minw, beta);
}

std::vector<ld> probe_refine_pdf(int nt, std::vector<ld> const& grid, u64 bins, u64 dims, ld alpha,
    std::vector<ld> const& data)
{
    if (nt == NT_F) return refine_pdf_t<float>(grid, bins, dims, alpha, data);
    if (nt == NT_D) return refine_pdf_t<double>(grid, bins, dims, alpha, data);
    return refine_pdf_t<long double>(grid, bins, dims, alpha, data);
}

}
