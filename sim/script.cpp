// hepsim - scripted user code shared by all numeric types: integrand values, projections, channel
// maps, user grids and user weights. Everything is a pure function of the plan and the point.
#include "ctx.hpp"

#include <algorithm>
#include <cmath>
#include <cstring>

namespace sim
{

Ctx*& current_ctx()
{
    static thread_local Ctx* c = nullptr;
    return c;
}

static long double unit(std::uint64_t a, std::uint64_t b)
{
    return static_cast<long double>(mix2(a, b) >> 11) * (1.0L / 9007199254740992.0L);
}

std::uint64_t hash_point(long double const* u, std::size_t n, std::uint32_t channel)
{
    std::uint64_t h = 0x1234567 + channel;
    for (std::size_t i = 0; i != n; ++i)
    {
        unsigned char b[16] = {0};
        std::memcpy(b, &u[i], 10);
        std::uint64_t lo, hi;
        std::memcpy(&lo, b, 8);
        std::memcpy(&hi, b + 8, 8);
        h = mix2(h ^ lo, hi + i);
    }
    return h;
}

static long double poly(Plan const& p, long double const* x, std::size_t n)
{
    std::uint64_t const s = p.fseed;
    std::size_t const terms = 1 + mix2(s, 77) % 3;
    long double sum = 0;
    for (std::size_t t = 0; t != terms; ++t)
    {
        long double term = 0.5L + unit(s, 1000 + t);
        // high dimensional points: only the first two coordinates matter (spectator dimensions)
        std::size_t const nj = (n > 8) ? 2 : n;
        for (std::size_t j = 0; j != nj; ++j)
        {
            long double const a = 0.25L + unit(s, 2000 + 16 * t + j);
            long double const b = ((mix2(s, 3000 + 16 * t + j) & 3) == 0) ? 0.0L
                : 2.0L * unit(s, 4000 + 16 * t + j);
            term *= a + b * x[j];
        }
        sum += term;
    }
    return sum;
}

// exact integral of the polynomial script over the unit hypercube
long double script_poly_integral(Plan const& p, std::size_t n)
{
    std::uint64_t const s = p.fseed;
    std::size_t const terms = 1 + mix2(s, 77) % 3;
    long double sum = 0;
    for (std::size_t t = 0; t != terms; ++t)
    {
        long double term = 0.5L + unit(s, 1000 + t);
        std::size_t const nj = (n > 8) ? 2 : n;
        for (std::size_t j = 0; j != nj; ++j)
        {
            long double const a = 0.25L + unit(s, 2000 + 16 * t + j);
            long double const b = ((mix2(s, 3000 + 16 * t + j) & 3) == 0) ? 0.0L
                : 2.0L * unit(s, 4000 + 16 * t + j);
            term *= a + b * 0.5L;
        }
        sum += term;
    }
    return std::ldexp(sum, p.fmag);
}

long double script_value(Plan const& p, long double const* x, std::size_t n, std::uint32_t channel,
    std::uint64_t point_hash)
{
    std::uint64_t const s = p.fseed;
    long double v = 0;

    switch (p.fk)
    {
    case F_POLY:
        v = poly(p, x, n);
        break;

    case F_PEAK:
    {
        long double const g = std::ldexp(1.0L, -static_cast<int>(2 + mix2(s, 5) % 5));
        v = 1;
        for (std::size_t j = 0; j != n && j != 8; ++j)
        {
            long double const c = unit(s, 100 + j);
            long double const d = x[j] - c;
            v *= g * g / (d * d + g * g);
        }
        break;
    }

    case F_SIGN:
        v = 1;
        for (std::size_t j = 0; j != n && j != 8; ++j) v *= 2.0L * x[j] - 1.0L;
        break;

    case F_ZERO:
        return 0;

    case F_CONST:
        v = 0.5L + unit(s, 9);
        break;

    case F_SPARSE:
        v = ((point_hash & 0xffffffffULL) < p.fq) ? poly(p, x, n) : 0.0L;
        break;

    case F_SELECT:
    {
        if ((mix2(s, 8) & 1) && p.integ == MULTI)
        {
            v = (channel == mix2(s, 10) % p.chan) ? poly(p, x, n) : 0.0L;
        }
        else
        {
            // non-zero only in a window (or above / below a cut) of one coordinate, not always the first
            std::size_t const dsel = (n > 8) ? 0 : mix2(s, 13) % n;
            long double const lo = 0.8L * unit(s, 11);
            long double const len = 0.05L + 0.15L * unit(s, 12);
            std::uint64_t const style = mix2(s, 14) % 4;
            bool const in = (style == 0) ? (x[dsel] >= lo)
                : (style == 1) ? (x[dsel] < lo + len) : (x[dsel] >= lo && x[dsel] < lo + len);
            v = in ? poly(p, x, n) : 0.0L;
        }
        break;
    }

    case F_LADDER:
    {
        int const L = (p.nt == NT_F) ? 16 : 60;
        int const k = static_cast<int>(x[0] * L);
        v = std::ldexp(poly(p, x, n), k - L / 2);
        break;
    }

    default:
        v = 1;
    }

    return std::ldexp(v, p.fmag);
}

int poison_kind(Ctx& c, std::uint64_t point_hash)
{
    for (auto const& f : c.poison_calls)
    {
        if (f.a == c.cur_iter && f.b == c.cur_call)
        {
            return static_cast<int>(f.c);
        }
    }

    if (c.poison_q != 0 && c.poison_mask != 0)
    {
        std::uint64_t const h = mix2(point_hash, 0xabcdef);
        if ((h & 0xffffffffULL) < c.poison_q)
        {
            // pick one of the enabled kinds
            int kinds[6];
            int n = 0;
            for (int k = 0; k != 6; ++k)
            {
                if (c.poison_mask & (1u << k)) kinds[n++] = 1 << k;
            }
            return kinds[(h >> 32) % n];
        }
    }

    return 0;
}

void script_project(Plan const& p, std::size_t d, long double const* x, std::size_t n,
    std::uint64_t /*point_hash*/, long double& px, long double& py)
{
    DistSpec const& s = p.dists[d];
    long double const ux = x[d % n];
    long double const uy = x[(d + 1) % n];

    if (s.proj == 1)
    {
        px = ux;
        py = uy;
        return;
    }

    // spread over the range and 10% beyond on either side
    px = s.xmin + (1.2L * ux - 0.1L) * (s.xmax - s.xmin);
    py = s.ymin + (1.2L * uy - 0.1L) * (s.ymax - s.ymin);
}

void ChannelMap::build(Plan const& p)
{
    chan = p.chan;
    dims = p.dims;
    jac = std::ldexp(1.0L, p.jexp);
    breaks.assign(chan * dims, {});
    slo.assign(chan, 0.0L);
    shi.assign(chan, 1.0L);

    // some plans give channels other than the first a restricted support in the first dimension, so
    // that an integrand can be zero on the whole support of a channel (its adjustment datum is then
    // exactly zero and the refinement disables it). Never in the lattice scenario: exactness needs
    // the enabled channels to cover the hypercube.
    bool const restricted = p.scn != "lattice" && (mix2(p.mseed, 999) % 3 == 0);
    singular = p.scn != "lattice" && (mix2(p.mseed, 998) % 5 == 0);
    // some maps compute the densities together with the coordinates and do nothing but return the
    // jacobian when asked for densities (the documented alternative)
    early = (mix2(p.mseed, 997) % 4 == 0);
    sparse = (mix2(p.mseed, 998) % 3 == 0);
    all = !sparse && (mix2(p.mseed, 1001) % 3 == 0);
    coord_ret = (mix2(p.mseed, 999) % 2 == 0) ? 0 : static_cast<int>(1 + mix2(p.mseed, 1000) % 3);
    for (std::uint64_t c = 1; restricted && c < chan; ++c)
    {
        std::uint64_t const h = mix2(p.mseed, 5000 + c);
        if (h & 1)
        {
            int const a = static_cast<int>((h >> 8) % 7);            // 0 .. 6
            int const b = a + 1 + static_cast<int>((h >> 16) % (8 - a));   // a+1 .. 8
            slo[c] = a / 8.0L;
            shi[c] = b / 8.0L;
        }
    }

    for (std::uint64_t c = 0; c != chan; ++c)
    {
        for (std::uint64_t j = 0; j != dims; ++j)
        {
            // interval lengths are powers of two in units of 1/8, so that a dyadic midpoint lattice
            // never straddles a breakpoint of any channel (needed for the exactness check of C01)
            std::uint64_t const h = mix2(p.mseed, 100 * c + j);
            std::vector<int> len;
            switch (h % 4)
            {
            case 0: len = {8}; break;
            case 1: len = {4, 4}; break;
            case 2: len = {2, 2, 2, 2}; break;
            default: len = {4, 2, 1, 1}; break;
            }
            // seeded permutation of the lengths
            std::uint64_t hh = h;
            for (std::size_t k = len.size(); k > 1; --k)
            {
                hh = mix64(hh);
                std::swap(len[k - 1], len[hh % k]);
            }
            std::vector<int> pts;
            int accu = 0;
            for (std::size_t k = 0; k + 1 < len.size(); ++k)
            {
                accu += len[k];
                pts.push_back(accu);
            }
            auto& t = breaks[c * dims + j];
            t.push_back(0.0L);
            for (int k : pts) t.push_back(k / 8.0L);
            t.push_back(1.0L);
        }
    }
}

void ChannelMap::coords(std::uint32_t c, long double const* u, long double* x) const
{
    for (std::uint64_t j = 0; j != dims; ++j)
    {
        auto const& t = breaks[c * dims + j];
        std::size_t const B = t.size() - 1;
        long double const pos = u[j] * B;
        std::size_t i = static_cast<std::size_t>(pos);
        if (i >= B) i = B - 1;
        x[j] = t[i] + (pos - i) * (t[i + 1] - t[i]);
    }
    if (dims != 0) x[0] = slo[c] + x[0] * (shi[c] - slo[c]);
}

long double ChannelMap::density(std::uint32_t c, long double const* x) const
{
    long double d = 1;
    for (std::uint64_t j = 0; j != dims; ++j)
    {
        auto const& t = breaks[c * dims + j];
        std::size_t const B = t.size() - 1;
        long double xj = x[j];
        if (j == 0)
        {
            // restricted support: zero density outside [slo, shi)
            if (xj < slo[c] || (xj >= shi[c] && shi[c] < 1)) return 0;
            long double const w = shi[c] - slo[c];
            xj = (xj - slo[c]) / w;
            d /= w;
        }
        std::size_t i = 0;
        while (i + 1 < B && xj >= t[i + 1]) ++i;
        d /= B * (t[i + 1] - t[i]);
    }
    return d;
}

std::vector<long double> make_user_grid(Plan const& p)
{
    std::vector<long double> g;
    g.reserve(p.dims * (p.bins + 1));
    int const kmax = (p.nt == NT_F) ? 10 : 28;

    for (std::uint64_t j = 0; j != p.dims; ++j)
    {
        std::vector<long double> w(p.bins);
        long double sum = 0;
        std::uint64_t const style = mix2(p.gseed, 50 + j) % 3;
        if (p.scn == "lattice" && p.variant == 3 && j >= 2)
        {
            // spectator dimensions of the high dimensional lattice plans keep a uniform grid
            for (std::uint64_t b = 0; b != p.bins + 1; ++b) g.push_back(static_cast<long double>(b) / p.bins);
            continue;
        }
        for (std::uint64_t b = 0; b != p.bins; ++b)
        {
            long double e = 0;
            if (style == 0) e = -3.0L * unit(p.gseed, 1000 * j + b);
            else if (style == 1) e = -static_cast<long double>(kmax) * unit(p.gseed, 1000 * j + b);
            else e = (mix2(p.gseed, 7000 * j + b) % 4 == 0) ? -static_cast<long double>(kmax) : 0.0L;
            w[b] = std::exp2(e);
            sum += w[b];
        }
        if (p.scn != "lattice" && p.bins >= 3 && mix2(p.gseed, 90 + j) % (p.scn == "grid" ? 2 : 5) == 0)
        {
            // empty bins (neighbouring boundaries coincide), as the library's own refinement produces
            // them once many bins have collapsed into a narrow peak - a grid taken over from such a run
            for (std::uint64_t b = 0; b != p.bins; ++b)
            {
                if (mix2(p.gseed, 9000 * (j + 1) + b) % 3 == 0 && sum - w[b] > 0)
                {
                    sum -= w[b];
                    w[b] = 0;
                }
            }
            sum = 0;
            for (std::uint64_t b = 0; b != p.bins; ++b) sum += w[b];
        }
        long double acc = 0;
        g.push_back(0.0L);
        for (std::uint64_t b = 0; b + 1 != p.bins; ++b)
        {
            acc += w[b];
            g.push_back(acc / sum);
        }
        g.push_back(1.0L);
    }

    return g;
}

std::vector<long double> make_user_weights(Plan const& p)
{
    if (p.variant == 77 && p.aux.size() >= p.chan)
    {
        // explicit small integer weights (lattice scenario)
        std::vector<long double> e;
        for (std::uint64_t i = 0; i != p.chan; ++i) e.push_back(static_cast<long double>(p.aux[i]));
        return e;
    }

    std::vector<long double> w(p.chan);
    std::uint64_t const s = p.wseed;
    int const scale = static_cast<int>(mix2(s, 1) % 9) - 4;
    std::uint64_t const zero_style = mix2(s, 2) % 6;   // 0 none, 1 front, 2 end, 3 middle, 4 random, 5 all but one
    std::uint64_t const mag_style = mix2(s, 3) % 4;   // 3: one channel's weight is tiny relative to the others
    std::size_t positive = 0;

    for (std::uint64_t i = 0; i != p.chan; ++i)
    {
        long double v = 0;
        if (mag_style == 0) v = 1;
        else if (mag_style == 1) v = 0.05L + unit(s, 100 + i);
        else if (mag_style == 2) v = std::exp2(-12.0L * unit(s, 100 + i));
        else
        {
            // after normalisation the first such weight is subnormal (or far below eps) in the type
            int const e = (p.nt == NT_F) ? 130 + static_cast<int>(mix2(s, 6) % 15)
                : (p.nt == NT_D) ? 1026 + static_cast<int>(mix2(s, 6) % 40) : 16390 + static_cast<int>(mix2(s, 6) % 40);
            v = (i == mix2(s, 7) % p.chan) ? std::ldexp(1.0L, -e + 4) : 0.5L + unit(s, 100 + i);
        }

        bool zero = false;
        switch (zero_style)
        {
        case 1: zero = i < (p.chan + 2) / 3 && i + 1 != p.chan; break;
        case 2: zero = i >= p.chan - (p.chan + 2) / 3 && i != 0; break;
        case 3: zero = i > 0 && i + 1 < p.chan && (i % 2 == 1); break;
        case 4: zero = (mix2(s, 200 + i) & 1) != 0; break;
        case 5: zero = i != mix2(s, 4) % p.chan; break;
        default: break;
        }

        w[i] = zero ? 0.0L : std::ldexp(v, scale);
        if (!zero) ++positive;
    }

    if (positive == 0)
    {
        w[mix2(s, 5) % p.chan] = std::ldexp(1.0L, scale);
    }

    return w;
}

}
