// hepsim - scenarios with crashes, restarts, file system faults, callback modes and MPI schedules
#include "scen.hpp"

#include <algorithm>
#include <cmath>
#include <set>

namespace sim
{

void exec_poison_on(Plan const& p, Report& rep);

extern Scenario const scen_restart, scen_durable, scen_rollback, scen_fscrash, scen_modes, scen_mpi;

// the checkpoint file name is part of the configuration space: names without extension, with several
// dots, ending in a dot, ending in ".tmp", in a sub directory
void add_extreme_draws(Rng& r, Plan& p, double prob);   // scen_serial.cpp

static bool same_bits_ld(ld a, ld b)
{
    return (a != a && b != b) || (a == b && std::signbit(a) == std::signbit(b));
}

static std::string chk_path(Plan const& p)
{
    static char const* const names[] = {"/hepsim/run.chkpt", "/hepsim/run.chkpt", "/hepsim/run.chkpt", "/hepsim/chkpt",
        "/hepsim/chkpt.tmp", "/hepsim/out.d/run.tmp", "/hepsim/run.", "/hepsim/a.b.c", "/hepsim/.hidden",
        "/hepsim/dir.x/file", "/hepsim/x.tmp.tmp", "/hepsim/name with blanks.txt"};
    return names[mix2(p.gseed ^ p.fseed, 4711) % (sizeof names / sizeof names[0])];
}

#define CHK (chk_path(p))

// ------------------------------------------------------------------------------------------------
// restart: C03 (+ C05 at every restart)

static Plan gen_restart(Rng& r, int tier, std::string const& focus)
{
    Plan p;
    p.scn = "restart";
    GenOpts o;
    o.max_calls = tier ? 300 : 80;
    o.max_iters = tier ? 6 : 4;
    o.allow_zero_calls = false;
    if (focus == "C03" && r.chance(0.6)) o.eng_class = 3;
    if (focus == "C08") o.integ = MULTI;
    o.allow_tiny = true;   // values whose squares are subnormal: they have to survive the text as well
    gen_world(r, p, o);
    if (focus == "C08" && r.chance(0.15)) p.fmag = tiny_exponent(r, p.nt) / 2 - static_cast<int>(r.below(6));
    while (p.calls.size() < 2) p.calls.push_back(2 + r.below(60));
    if (r.chance(0.15) && tier)
    {
        // longer runs: interruption subsets are sampled instead of enumerated
        while (p.calls.size() < 7 + r.below(6)) p.calls.push_back(2 + r.below(40));
    }
    for (auto& c : p.calls) c = std::max<u64>(c, 2);
    // 0 text in memory + user callback, 1 built-in writing callback + file, 2 user callback that
    // stores the text durably; 1 and 2 can die in the middle of an iteration
    p.variant = r.below(3);
    p.cbk = (p.variant == 1) ? 0 : 1;
    p.mode = (p.variant == 1) ? (r.chance(0.8) ? 1 : 3) : 0;
    p.target = 0;
    if (p.variant == 1)
    {
        if (p.fk == F_ZERO || p.fk == F_CONST) p.fk = F_PEAK;
        // early stop by target precision: aux[1] != 0 asks exec to place a target
        p.aux.assign(2, 0);
        p.aux[1] = r.chance(0.4) ? 1 + r.below(p.calls.size()) : 0;
    }
    else
    {
        p.aux.assign(2, 0);
    }
    p.aux[0] = r.next();   // seed for sampled interruption masks and kill positions
    return p;
}

static void exec_restart(Plan const& p, Report& rep)
{
    std::string const key = key_of(p);
    fs().reset();

    RunCtl ctl = ctl_from_plan(p);
    ctl.filename = CHK;
    ctl.user_durable = (p.variant == 2);
    Plan q = p;

    // reference: the uninterrupted run
    if (p.variant == 1 && p.aux[1] != 0)
    {
        Plan t = p;
        t.cbk = 1;
        Report scratch;
        Session s0(t, scratch);
        s0.check = false;
        s0.fresh();
        RunCtl c0 = ctl_from_plan(t);
        RunOut const o0 = s0.run(t.calls, c0);
        if (o0.threw || o0.killed) return;
        std::vector<ld> rho = reference_rel_errors(s0.w->view());
        bool ok = true;
        for (ld x : rho) ok = ok && (x > 0) && std::isfinite(x);
        if (ok)
        {
            std::vector<ld> sorted = rho;
            std::sort(sorted.begin(), sorted.end());
            u64 const i = p.aux[1] % sorted.size();
            ld target = (i + 1 < sorted.size()) ? std::sqrt(sorted[i] * sorted[i + 1]) : sorted[i] / 2;
            target = round_to(p.nt, target);
            bool clear = true;
            ld const unc = rel_error_uncertainty(s0.w->view(), p.nt);
            for (ld x : rho) clear = clear && std::fabs(x - target) > (unc + 64 * eps_of(p.nt)) * std::max(x, target);
            if (clear)
            {
                q.target = target;
                ctl.target = target;
                rep.probes["target-placed"]++;
            }
        }
    }

    Session ref(q, rep);
    ref.fresh();
    fs().files.clear();
    RunOut const ro = ref.run(q.calls, ctl);
    if (ro.threw)
    {
        rep.fail("C03", "exception", key, ro.what);
        return;
    }
    if (ro.killed) return;
    u64 const s = ro.results;
    std::string const ref_text = ref.w->text();
    if (s < q.calls.size()) rep.probes["early-stop"]++;

    if (p.variant == 1)
    {
        auto it = fs().files.find(CHK);
        if (it == fs().files.end() || it->second != ref_text)
        {
            rep.fail("C03", "file-differs-from-returned-checkpoint", key,
                "the file written by the built-in callback is not the text of the returned checkpoint");
            return;
        }
    }

    if (s < 2) return;

    // interruption subsets of the boundaries 1 .. s-1
    std::vector<u64> masks;
    u64 const nb = s - 1;
    if (nb <= 5)
    {
        for (u64 m = 1; m != (1ULL << nb); ++m) masks.push_back(m);
    }
    else
    {
        Rng mr(p.aux[0]);
        for (int i = 0; i != 24; ++i) masks.push_back(1 + mr.below((1ULL << nb) - 1));
        masks.push_back((1ULL << nb) - 1);
    }

    Rng kr(p.aux[0] ^ 0x5151);
    rep.nontrivial = true;

    for (u64 mask : masks)
    {
        Session run(q, rep);
        run.check = true;    // every oracle is armed in resumed runs as well (state threading, protocol, ...)
        run.fresh();
        fs().files.clear();
        u64 done = 0;
        bool dead = false;

        // a restart before the first iteration: the checkpoint without results carries the user's
        // grid / weights and parameters through text
        bool const initial_ok = (q.integ == PLAIN) || (q.integ == VEGAS && q.grid == 1) || (q.integ == MULTI && q.wts == 1);
        if (initial_ok && kr.chance(0.3))
        {
            if (!run.reload("restart before the first iteration"))
            {
                rep.fail("C03", "text-not-readable", roundtrip_class(q).empty() ? key : roundtrip_class(q),
                    "checkpoint without results could not be read back or read back differently");
                // what was read differs but is usable: go on, the state threading oracles look at the
                // first iteration of the restarted run
                if (!run.reload_usable) return;
            }
            rep.faults["restart-before-first-iteration"]++;
        }

        while (done < s && !dead)
        {
            // next interruption point
            u64 next = s;
            for (u64 b = done + 1; b < s; ++b)
            {
                if (mask >> (b - 1) & 1)
                {
                    next = b;
                    break;
                }
            }

            bool const midkill = (p.variant != 0) && next < s && kr.chance(0.5);
            std::vector<u64> seg;
            RunCtl c = ctl;

            if (midkill)
            {
                // asked for everything that is left, dies inside iteration `next`
                seg.assign(q.calls.begin() + done, q.calls.end());
                c.kill_armed = true;
                c.kill_iter = static_cast<std::uint32_t>(next);
                c.kill_call = kr.below(q.calls[next]);
                c.kill_rank = 0;
            }
            else
            {
                seg.assign(q.calls.begin() + done, q.calls.begin() + next);
            }

            RunOut const o = run.run(seg, c);

            if (o.threw)
            {
                rep.fail("C03", "exception", key, o.what);
                return;
            }

            std::string text;

            if (midkill)
            {
                if (!o.killed)
                {
                    // the run stopped before reaching the kill point (early stop)
                    if (o.results >= s) break;
                    rep.fail("C03", "resumed-run-stops-early", key, fmt(
                        "interruption mask %llx: resumed run ended after %llu iterations, reference made %llu",
                        (unsigned long long) mask, (unsigned long long) o.results, (unsigned long long) s));
                    return;
                }
                // only what was made durable survives
                auto it = fs().files.find(CHK);
                text = (it == fs().files.end()) ? std::string() : it->second;
                rep.faults["kill-mid-iteration"]++;
            }
            else
            {
                if (o.results != next)
                {
                    if (o.results < next)
                    {
                        rep.fail("C03", "resumed-run-stops-early", key, fmt(
                            "interruption mask %llx: segment ended after %llu iterations, asked up to %llu",
                            (unsigned long long) mask, (unsigned long long) o.results, (unsigned long long) next));
                    }
                    return;
                }
                if (next == s) break;
                if (p.variant == 0)
                {
                    text = run.w->text();
                }
                else
                {
                    auto it = fs().files.find(CHK);
                    text = (it == fs().files.end()) ? std::string() : it->second;
                }
                rep.faults["clean-interruption"]++;
            }

            // the process is gone: only the text survives
            ChkptView const before = run.w->view();
            std::unique_ptr<IWorld> nw = make_world(q.nt, q.eng);

            if (midkill)
            {
                // the object that died held less than it would have returned; compare with the text
                // only through the final result
                LoadInfo info;
                ++rep.restarts;
                if (!nw->load(q, text, info) || info.threw)
                {
                    durability_check(q, *nw, before, text, rep, "restart after kill");
                    rep.fail("C03", "text-not-readable", roundtrip_class(q).empty() ? key : roundtrip_class(q),
                        "checkpoint text could not be read back");
                    return;
                }
            }
            else if (!durability_check(q, *nw, before, text, rep, "restart"))
            {
                rep.fail("C03", "text-not-readable", rep.findings.empty() ? key : rep.findings.back().key,
                    "checkpoint text could not be read back or read back differently");
                return;
            }

            run.w = std::move(nw);
            done = run.w->nresults();

            if (done != next)
            {
                rep.fail("C03", "results-lost", key, fmt("mask %llx: restarted with %llu results, expected %llu",
                    (unsigned long long) mask, (unsigned long long) done, (unsigned long long) next));
                return;
            }
        }

        std::string const fin = run.w->text();

        if (fin != ref_text)
        {
            // find the first difference for the report
            std::size_t i = 0;
            while (i < fin.size() && i < ref_text.size() && fin[i] == ref_text[i]) ++i;
            rep.fail("C03", "resumed-differs", roundtrip_class(q).empty() ? key : roundtrip_class(q), fmt(
                "interruption mask %llx of %llu boundaries: final checkpoint differs from the uninterrupted run at byte %zu",
                (unsigned long long) mask, (unsigned long long) nb, i));
            if (q.integ == MULTI)
            {
                // the channel weights an iteration used are a function of the data of the iteration before
                // it, whether that data went through text in between or not
                ChkptView const a = ref.w->view(), b = run.w->view();
                for (std::size_t k = 0; k < a.results.size() && k < b.results.size(); ++k)
                {
                    bool same = a.results[k].weights.size() == b.results[k].weights.size();
                    for (std::size_t j = 0; same && j != a.results[k].weights.size(); ++j)
                    {
                        same = same_bits_ld(a.results[k].weights[j], b.results[k].weights[j]);
                    }
                    if (!same)
                    {
                        rep.fail("C08", "resumed-weights-differ", fmt("multi_channel %s", nt_name(q.nt)), fmt(
                            "interruption mask %llx: iteration %zu of the resumed run used other channel weights than the uninterrupted run",
                            (unsigned long long) mask, k));
                        break;
                    }
                }
            }
            return;
        }

        if (p.variant != 0)
        {
            auto it = fs().files.find(CHK);
            if (it == fs().files.end() || it->second != ref_text)
            {
                rep.fail("C03", "file-differs-after-resume", key, fmt(
                    "interruption mask %llx: checkpoint file after the resumed run differs from the reference text",
                    (unsigned long long) mask));
                return;
            }
        }
    }

    rep.probes["interruption-subsets"] += masks.size();
}

Scenario const scen_restart = {"restart", gen_restart, exec_restart};

// ------------------------------------------------------------------------------------------------
// durable: C05

// only checkpoints whose numeric fields are finite are in the domain of the text round trip
static bool view_finite(ChkptView const& v)
{
    for (auto const& r : v.results)
    {
        if (!std::isfinite(r.sum) || !std::isfinite(r.sumsq)) return false;
        for (ld x : r.adj) if (!std::isfinite(x)) return false;
        for (ld x : r.weights) if (!std::isfinite(x)) return false;
        for (ld x : r.pdf) if (!std::isfinite(x)) return false;
    }
    for (ld x : v.next) if (!std::isfinite(x)) return false;
    return true;
}

static Plan gen_durable(Rng& r, int tier, std::string const&)
{
    Plan p;
    p.scn = "durable";
    GenOpts o;
    o.max_calls = tier ? 200 : 60;
    o.max_iters = 4;
    gen_world(r, p, o);
    p.variant = r.below(3);   // 0 state from a run, 1 assembled through constructors, 2 empty checkpoint with user state
    if (p.variant == 1)
    {
        p.acc = 1;
        gen_dists(r, p, static_cast<int>(r.below(3)), false);
        for (auto& d : p.dists)
        {
            d.bx = 1 + r.below(4);
            d.by = d.two_d ? 1 + r.below(3) : 1;
        }
        p.bins = 2 + r.below(6);
        p.chan = 1 + r.below(5);
        p.calls.resize(r.below(4));
        for (auto& c : p.calls) c = r.next() >> r.below(64);
        p.wts = 1;
    }
    else if (p.variant == 2)
    {
        p.grid = 1;
        p.wts = r.chance(0.7);   // a default multi-channel checkpoint that never ran has a text, too
        if (p.integ == PLAIN) p.integ = VEGAS;
        p.calls.clear();
    }
    else
    {
        // push fields to the corners: large / tiny magnitudes
        int const emax = (p.nt == NT_F) ? 30 : 300;
        p.fmag = static_cast<int>(r.below(2 * emax)) - emax;
        // sums of squares in the subnormal range of the numeric type
        if (r.chance(0.2)) p.fmag = tiny_exponent(r, p.nt) / 2 - static_cast<int>(r.below(8));
        p.jexp = 0;
        if (p.fk == F_LADDER) p.fk = F_SIGN;
    }
    p.aux.assign(1, r.next());
    return p;
}

static void exec_durable(Plan const& p, Report& rep)
{
    Session s(p, rep);
    rep.nontrivial = true;

    if (p.variant == 1)
    {
        s.w->assemble(p, p.aux[0]);
        rep.probes["assembled-state"]++;
    }
    else if (p.variant == 2)
    {
        s.fresh();
        rep.probes["empty-checkpoint-user-state"]++;
    }
    else
    {
        s.fresh();
        RunCtl const ctl = ctl_from_plan(p);
        RunOut const o = s.run(p.calls, ctl);
        if (o.threw || o.killed) return;
        // only checkpoints whose numeric fields are finite are in the domain
        if (!view_finite(s.w->view())) return;
        rep.probes["state-from-run"]++;
    }

    s.reload("durable");
}

Scenario const scen_durable = {"durable", gen_durable, exec_durable};

// ------------------------------------------------------------------------------------------------
// rollback: C15, refinement against the prefix-text model

static Plan gen_rollback(Rng& r, int tier, std::string const& focus)
{
    Plan p;
    p.scn = "rollback";
    GenOpts o;
    if (focus == "C07") o.integ = VEGAS;
    if (focus == "C08") o.integ = MULTI;
    if (focus == "C19") o.integ = r.chance(0.5) ? VEGAS : MULTI;
    o.max_calls = tier ? 120 : 40;
    o.max_iters = 6;
    o.allow_zero_calls = false;
    o.allow_dists = r.chance(0.3);
    gen_world(r, p, o);
    while (p.calls.size() < 3) p.calls.push_back(2 + r.below(40));
    for (auto& c : p.calls) c = std::max<u64>(c, 2);
    static int const eng[] = {E_SCRIPT64, E_SCRIPT64, E_MT19937, E_MT19937_64, E_RANLUX24, E_RANLUX48_BASE,
        E_MINSTD, E_KNUTH_B};
    p.eng = r.pick(eng);
    p.cbk = 1;
    if (r.chance(0.2))
    {
        // the history runs under MPI (the MPI integrators thread the state through their loops themselves)
        p.P = 2 + r.below(3);
        p.rorder = 0;
    }
    u64 const L = p.calls.size();
    u64 len = 0;
    u64 const nops = 2 + r.below(tier ? 11 : 7);
    for (u64 i = 0; i != nops; ++i)
    {
        Op op;
        u64 const k = r.below(10);
        if (k < 4 && len < L)
        {
            op.kind = OP_RUN;
            op.a = 1 + r.below(L - len);
            len += op.a;
            // a continuation with other numbers of calls than the first time (bits 32..: what is added)
            if (r.chance(0.3)) op.a |= (1 + r.below(7)) << 32;
        }
        else if (k < 6)
        {
            op.kind = OP_RELOAD;
        }
        else if (k == 6 && len >= 1 && p.P == 0)
        {
            // the last iteration again, by hand (public *_iteration and add()), with more calls
            op.kind = OP_REDO;
            op.a = r.below(8);
        }
        else
        {
            op.kind = OP_ROLLBACK;
            op.a = r.below(len + 2);
            if (op.a <= len) len = op.a;
        }
        p.ops.push_back(op);
    }
    return p;
}

static void exec_rollback(Plan const& p, Report& rep)
{
    std::string const key = fmt("%s %s", integ_name(p.integ), nt_name(p.nt));
    u64 const L = p.calls.size();
    RunCtl const ctl = ctl_from_plan(p);

    // model: the text of the run that performs exactly the iterations the history has left in the
    // checkpoint, from runs that never call rollback (memoised by the list of calls)
    bool const empty_ok = (p.integ == PLAIN) || (p.integ == VEGAS && p.grid == 1) || (p.integ == MULTI && p.wts == 1);
    std::map<std::vector<u64>, std::string> memo;
    bool model_failed = false;
    auto const model = [&](std::vector<u64> const& c) -> std::string const&
    {
        auto it = memo.find(c);
        if (it != memo.end()) return it->second;
        std::string t;
        if (c.empty())
        {
            if (empty_ok)
            {
                std::unique_ptr<IWorld> w = make_world(p.nt, p.eng);
                w->fresh(p);
                t = w->text();
            }
        }
        else
        {
            Report scratch;
            Session s(p, scratch);
            s.check = false;
            s.fresh();
            RunOut const o = s.run(c, ctl);
            if (o.threw || o.killed) model_failed = true;
            else t = s.w->text();
        }
        return memo[c] = t;
    };
    std::vector<u64> cur;   // calls of the iterations the checkpoint holds
    bool diverged = false;

    Session s(p, rep);
    s.check = true;    // all oracles on the runs of the history as well
    s.fresh();
    u64 len = 0;
    bool reloaded = false;
    bool ran = false;
    rep.nontrivial = true;

    for (std::size_t i = 0; i != p.ops.size(); ++i)
    {
        Op const& op = p.ops[i];
        std::string what;

        if (op.kind == OP_RUN)
        {
            u64 const n = op.a & 0xffffffffULL;
            u64 const alt = op.a >> 32;
            if (len + n > L) continue;
            std::vector<u64> c(p.calls.begin() + len, p.calls.begin() + len + n);
            for (u64& x : c) x += alt;
            if (alt != 0) rep.probes["continuation-with-other-calls"]++;
            RunOut const o = s.run(c, ctl);
            if (o.threw)
            {
                rep.fail("C15", "exception", key, o.what);
                return;
            }
            if (o.killed || o.hang) return;
            len += n;
            cur.insert(cur.end(), c.begin(), c.end());
            ran = true;
            what = fmt("op %zu run(%llu%s)", i, (unsigned long long) n, alt ? ", other calls" : "");
        }
        else if (op.kind == OP_REDO)
        {
            if (len == 0 || p.P != 0) continue;
            u64 const calls = cur.back() + op.a;
            if (!s.w->redo_last_by_hand(p, calls, ctl))
            {
                rep.fail("C15", "exception", key, fmt("op %zu: redoing the last iteration by hand threw", i));
                return;
            }
            cur.back() = calls;
            rep.probes["last-iteration-redone-by-hand"]++;
            what = fmt("op %zu redo(+%llu)", i, (unsigned long long) op.a);
        }
        else if (op.kind == OP_RELOAD)
        {
            if (len == 0 && !(empty_ok || ran)) continue;
            Report scratch;
            Session tmp(p, scratch);
            ChkptView const before = s.w->view();
            std::unique_ptr<IWorld> nw = make_world(p.nt, p.eng);
            LoadInfo info;
            ++rep.restarts;
            if (!nw->load(p, before.text, info))
            {
                // unreadable text is C05's finding; the history cannot continue
                return;
            }
            s.w = std::move(nw);
            reloaded = true;
            rep.probes["reload"]++;
            what = fmt("op %zu reload", i);
        }
        else
        {
            u64 const k = op.a;
            std::string const before = (len != 0 || empty_ok || ran) ? s.w->text() : std::string();
            int const rc = s.w->rollback(k);
            if (k > len)
            {
                rep.probes["rollback-too-large"]++;
                if (rc != 1)
                {
                    rep.fail("C15", "too-large-not-rejected", key, fmt("op %zu rollback(%llu) on %llu results: %s",
                        i, (unsigned long long) k, (unsigned long long) len, rc == 0 ? "accepted" : "other exception"));
                    return;
                }
                if (!before.empty() && s.w->text() != before)
                {
                    rep.fail("C15", "rejected-rollback-changed-state", key, fmt("op %zu rollback(%llu)", i,
                        (unsigned long long) k));
                    return;
                }
                continue;
            }
            if (rc != 0)
            {
                rep.fail("C15", "rollback-threw", key, fmt("op %zu rollback(%llu) on %llu results threw", i,
                    (unsigned long long) k, (unsigned long long) len));
                return;
            }
            rep.probes[k == len ? "rollback-noop" : k == 0 ? "rollback-to-zero" : "rollback"]++;
            if (reloaded) rep.probes["rollback-after-reload"]++;
            len = k;
            cur.resize(k);
            what = fmt("op %zu rollback(%llu)%s", i, (unsigned long long) k, reloaded ? " after reload" : "");
        }

        if (len == 0 && !empty_ok)
        {
            // the default checkpoint without results cannot be serialised before it ran
            // (no grid / weights yet); its behaviour is checked through the next run
            continue;
        }

        std::string const now = s.w->text();

        // the text of the live object read back is the live object (C05 on every state of the history)
        bool durable = true;
        {
            ChkptView const live = s.w->view();
            std::unique_ptr<IWorld> probe = make_world(p.nt, p.eng);
            if (view_finite(live)) durable = durability_check(p, *probe, live, now, rep, "history");
        }

        // the grids the iterations were drawn with hold equal shares of the importance before them
        if (p.integ == VEGAS) oracle_c07_share(p, s.w->view(), rep, true);

        std::string const& want = model(cur);
        if (model_failed) return;
        (void) durable;   // a text that does not read back is C05's finding; the comparison with the model stands on its own
        if (now != want && !diverged)
        {
            std::size_t j = 0;
            while (j < now.size() && j < want.size() && now[j] == want[j]) ++j;
            std::string k2 = key;
            if (op.kind == OP_ROLLBACK) k2 = reloaded ? "rollback after reload" : "rollback";
            rep.fail("C15", op.kind == OP_ROLLBACK ? "rollback-state" : "history-state", k2, fmt(
                "%s: checkpoint is not the one of a run that stopped after %llu iterations (texts differ at byte %zu of %zu/%zu)",
                what.c_str(), (unsigned long long) len, j, now.size(), want.size()));
            // the history goes on (the other oracles look at what the diverged checkpoint does next);
            // the comparison with the model has said what it had to say
            diverged = true;
        }

    }
}

Scenario const scen_rollback = {"rollback", gen_rollback, exec_rollback};

// ------------------------------------------------------------------------------------------------
// fscrash: C18

static Plan gen_fscrash(Rng& r, int tier, std::string const&)
{
    Plan p;
    p.scn = "fscrash";
    GenOpts o;
    o.max_calls = tier ? 100 : 40;
    o.max_iters = 4;
    o.allow_zero_calls = false;
    o.allow_degenerate = false;
    gen_world(r, p, o);
    while (p.calls.size() < 2) p.calls.push_back(2 + r.below(30));
    for (auto& c : p.calls) c = std::max<u64>(c, 2);
    if (p.fk == F_ZERO || p.fk == F_CONST) p.fk = F_PEAK;
    // names that the text format cannot carry are C05's business
    for (auto& d : p.dists) d.name = "d";
    if (p.eng == E_MINSTD0 || p.eng == E_MINSTD || p.eng == E_KNUTH_B) p.eng = E_MT19937;
    p.cbk = 0;
    p.mode = r.chance(0.8) ? 1 : 3;
    p.target = 0;
    // sizes from below to far above the stream buffer: many bins / channels / mt19937 state lines
    switch (r.below(4))
    {
    case 0: break;
    case 1: p.bins = 64 + r.below(200); p.chan = 20 + r.below(60); break;
    case 2: p.eng = E_MT19937; break;
    default: p.eng = E_MT19937; p.bins = 128; p.dims = 3; p.nt = NT_L; break;
    }
    // 0 enumeration, 1 enumeration with short writes / EINTR, 2 executed crash sequences,
    // 3 enumeration while some opens for writing fail (name too long for the temporary, no space ...)
    p.variant = r.below(4);
    p.aux.assign(2, r.next());
    p.aux[1] = static_cast<u64>(tier);
    if (r.chance(0.2))
    {
        // the job runs under MPI: one process writes, the others are silent; every process may be
        // descheduled before any of its file system calls (reduction in rank order: the result must
        // not depend on the schedule)
        p.P = 2 + r.below(3);
        p.rorder = 0;
        if (p.variant != 2 && r.chance(0.5))
        {
            // two integrations side by side in one process (aux[2] = 1): the world is split into two
            // halves, the second half integrates with another generator seed and writes a file of its own
            p.P = 2 * (1 + r.below(2));
            p.aux.push_back(1);
        }
    }
    if (p.variant == 2)
    {
        u64 const n = 1 + r.below(4);
        for (u64 i = 0; i != n; ++i)
        {
            Fault f;
            if (r.chance(0.7))
            {
                f.kind = FLT_KILL_FS;
                f.a = r.below(12);          // fs event inside the incarnation
                f.b = r.below(5000);        // byte prefix
                // often: all but the last one to nine bytes of the write (what is cut off is then a
                // part of the last number only)
                if (r.chance(0.5)) f.b = (1ULL << 62) + 1 + r.below(9);
            }
            else
            {
                f.kind = FLT_KILL_CALL;
                f.a = r.below(p.calls.size());
                f.b = r.below(p.calls[f.a]);
            }
            p.faults.push_back(f);
        }
    }
    return p;
}

namespace
{

struct CrashCheck : CrashVisitor
{
    std::string path;
    std::vector<std::string> const* texts = nullptr;   // texts[k] = complete checkpoint after k iterations
    u64 base = 0;                                        // results before this incarnation
    std::vector<std::size_t> iter_of_event;              // iteration being written at each event
    bool thorough = false;
    Rng rng{1};
    u64 states = 0;
    std::set<std::string> distinct;                      // distinct contents seen (hashes as strings)
    std::string bad;                                     // first incomplete content
    std::size_t bad_event = 0;
    u64 bad_prefix = 0;
    std::vector<std::string> resume_from;                // distinct complete contents to resume from

    void prefixes(std::size_t, std::size_t n, std::vector<std::size_t>& out) override
    {
        if (thorough || n <= 512)
        {
            for (std::size_t i = 1; i < n; ++i) out.push_back(i);
            return;
        }
        std::set<std::size_t> s;
        for (std::size_t i = 1; i <= 64 && i < n; ++i)
        {
            s.insert(i);
            s.insert(n - i);
        }
        for (std::size_t i = 4096; i < n; i += 4096)
        {
            s.insert(i - 1);
            s.insert(i);
            s.insert(i + 1);
        }
        for (int i = 0; i != 256; ++i) s.insert(1 + rng.below(n - 1));
        out.assign(s.begin(), s.end());
    }

    void state(std::size_t event, u64 prefix, std::map<std::string, std::string> const& files,
        std::string const& touched) override
    {
        ++states;
        // the verdict can only change when the checkpoint path itself was touched (or the
        // iteration the event belongs to moved on)
        std::size_t const kk = (event < iter_of_event.size()) ? iter_of_event[event] : texts->size() - 1;
        if (!bad.empty()) return;   // the first incomplete state is the finding
        if (touched != "*" && touched != path && have_last && kk == last_k) return;
        have_last = true;
        last_k = kk;
        last_ok = true;
        auto it = files.find(path);
        if (it == files.end()) return;   // no file: resumes from scratch
        std::string const& c = it->second;
        std::size_t const k = (event < iter_of_event.size()) ? iter_of_event[event] : texts->size() - 1;
        bool complete = false;
        for (std::size_t j = 1; j < texts->size(); ++j)   // texts[0] stands for "no file": an empty file is no checkpoint
        {
            if ((j + 1 == k || j == k) && c == (*texts)[j]) complete = true;
        }
        last_ok = complete;
        if (!complete && bad.empty())
        {
            bad = c.empty() ? std::string("<empty file>") : c;
            bad_event = event;
            bad_prefix = prefix;
        }
    }

    bool have_last = false;
    bool last_ok = true;
    std::size_t last_k = 0;
};

// accepts any complete text of the run (old-or-new cannot be attributed); still catches incomplete files
struct AnyCheck : CrashCheck
{
    void state(std::size_t event, u64 prefix, std::map<std::string, std::string> const& files,
        std::string const&) override
    {
        ++states;
        auto it = files.find(path);
        if (it == files.end()) return;
        bool complete = false;
        for (std::size_t j = 1; j < texts->size(); ++j) complete = complete || (it->second == (*texts)[j]);
        if (!complete && bad.empty())
        {
            bad = it->second.empty() ? std::string("<empty file>") : it->second;
            bad_event = event;
            bad_prefix = prefix;
        }
    }
};

}

static void exec_fscrash(Plan const& p, Report& rep)
{
    std::string const key = fmt("%s %s", integ_name(p.integ), nt_name(p.nt));
    rep.nontrivial = true;
    RunCtl base_ctl = ctl_from_plan(p);
    base_ctl.filename = CHK;
    base_ctl.fs_faults.clear();
    base_ctl.kill_armed = false;

    if (p.aux.size() >= 3 && p.aux[2] == 1 && p.P >= 2 && p.P % 2 == 0 && p.variant != 2)
    {
        u64 const a = p.P / 2;
        Plan q1 = p;
        q1.eseed = p.eseed + 1;
        std::vector<std::string> texts_of[2] = {std::vector<std::string>(1), std::vector<std::string>(1)};
        std::string final_of[2];
        for (int g = 0; g != 2; ++g)
        {
            Plan const& pg = g ? q1 : p;
            Report scratch;
            Session s(pg, scratch);
            s.check = false;
            s.fresh();
            fs().reset();
            RunCtl c = base_ctl;
            c.P = a;
            c.log_text = true;
            RunOut const o = s.run(pg.calls, c);
            if (o.threw || o.killed || o.hang || o.results != pg.calls.size()) return;
            for (auto const& cb : o.ranks[0].cbs) texts_of[g].push_back(cb.text);
            final_of[g] = s.w->text();
        }

        Session s(p, rep);
        s.check = false;
        s.fresh();
        fs().reset();
        RunCtl c = base_ctl;
        c.P = p.P;
        c.comm_split = a;
        c.two_jobs = true;
        c.fs_trace = true;
        c.log_text = false;
        c.fs_yield_p = 0.4;
        RunOut const o = s.run(p.calls, c);
        if (o.threw)
        {
            rep.fail("C18", "restarted-run-throws", key, o.what);
            return;
        }
        if (o.killed || o.hang || o.rank_texts.size() != p.P) return;
        std::vector<FsEvent> const trace = fs().trace;
        rep.probes["two-integrations-in-one-process"]++;

        if (o.rank_texts[0] != final_of[0] || o.rank_texts[a] != final_of[1])
        {
            rep.fail("C18", "faulty-writes-change-result", "two integrations in one process",
                "one of two integrations running side by side returns another checkpoint than it does alone");
            return;
        }

        for (int g = 0; g != 2; ++g)
        {
            AnyCheck any;
            any.path = g ? std::string(CHK) + ".g1" : std::string(CHK);
            any.texts = &texts_of[g];
            any.thorough = p.aux.size() > 1 && p.aux[1] != 0;
            any.rng = Rng(p.aux[0] ^ 77);
            enumerate_crash_states({}, trace, any);
            rep.faults["kill-at-fs-event(enumerated)"] += any.states;
            rep.probes["crash-states"] += any.states;
            rep.hash.u64(any.states);
            if (!any.bad.empty())
            {
                rep.fail("C18", "incomplete-file", "two integrations in one process", fmt(
                    "killed at file system event %zu: the checkpoint file of integration %d holds %zu bytes that are no complete checkpoint of that integration",
                    any.bad_event, g, any.bad == "<empty file>" ? std::size_t(0) : any.bad.size()));
                return;
            }
        }
        return;
    }

    // reference: texts after every iteration, from the uninterrupted run (user visible callback texts)
    std::vector<std::string> texts(1);
    std::string final_text;
    {
        Report scratch;
        Session s(p, scratch);
        s.check = false;
        s.fresh();
        fs().reset();
        RunCtl c = base_ctl;
        c.log_text = true;
        RunOut const o = s.run(p.calls, c);
        if (o.threw || o.killed) return;
        for (auto const& cb : o.ranks[0].cbs) texts.push_back(cb.text);
        final_text = s.w->text();
        if (o.results != p.calls.size()) return;   // early stop: C12's business
    }

    if (p.variant != 2)
    {
        // one traced execution; every crash point is evaluated from the trace
        Session s(p, rep);
        s.check = false;
        s.fresh();
        fs().reset();
        RunCtl c = base_ctl;
        c.fs_trace = true;
        c.log_text = false;
        Rng fr(p.aux[0]);
        if (p.variant == 3)
        {
            // some opens for writing fail: the checkpoint of that iteration is not written, the file
            // must still be a complete (older) checkpoint at every instant
            for (u64 n = 0; n != 16; ++n)
            {
                if (fr.chance(0.4))
                {
                    Fault f;
                    f.kind = FLT_IO_ERROR;
                    f.a = (1ULL << 62) + n;
                    f.b = fr.chance(0.5) ? 36 : 28;   // ENAMETOOLONG / ENOSPC
                    c.fs_faults.push_back(f);
                }
            }
        }

        if (p.variant == 1)
        {
            // legal kernel behaviour: short writes and EINTR on a seeded subset of the events
            for (u64 e = 0; e != 400; ++e)
            {
                if (fr.chance(0.15))
                {
                    Fault f;
                    f.kind = fr.chance(0.6) ? FLT_SHORT_WRITE : FLT_EINTR;
                    f.a = e;
                    f.b = fr.next();
                    c.fs_faults.push_back(f);
                }
            }
        }

        // the iteration an event belongs to: events are recorded while the callback of iteration k runs
        RunOut const o = s.run(p.calls, c);
        if (o.threw || o.killed) return;
        std::vector<FsEvent> const trace = fs().trace;
        rep.faults["short-write"] += fs().n_short;
        rep.faults["eintr"] += fs().n_eintr;
        rep.faults["open-fails"] += fs().n_ioerr;

        if (s.w->text() != final_text)
        {
            rep.fail("C18", "faulty-writes-change-result", key, "short writes / EINTR changed the returned checkpoint");
            return;
        }

        // attribute events to iterations: a new iteration starts with each open of the checkpoint
        // path or of a temporary file next to it
        CrashCheck cc;
        cc.path = CHK;
        cc.texts = &texts;
        cc.thorough = p.aux.size() > 1 && p.aux[1] != 0;   // every byte prefix in the thorough tier
        cc.rng = Rng(p.aux[0] ^ 77);
        std::size_t iter = 0;
        for (auto const& e : trace)
        {
            if (e.kind == FS_OPEN_TRUNC || e.kind == FS_OPEN_OTHER) ++iter;
            cc.iter_of_event.push_back(std::min<std::size_t>(iter, texts.size() - 1));
        }
        // a writer that opens more than one file per iteration: attribute by the content instead
        if (iter != p.calls.size() || p.variant == 3)
        {
            cc.iter_of_event.clear();
        }

        if (cc.iter_of_event.empty())
        {
            // fall back: accept any complete text (old-or-new cannot be attributed); still catches
            // incomplete files
            AnyCheck any;
            any.path = CHK;
            any.texts = &texts;
            any.rng = Rng(p.aux[0] ^ 77);
            enumerate_crash_states({}, trace, any);
            cc.states = any.states;
            cc.bad = any.bad;
            cc.bad_event = any.bad_event;
            cc.bad_prefix = any.bad_prefix;
        }
        else
        {
            enumerate_crash_states({}, trace, cc);
        }

        rep.faults["kill-at-fs-event(enumerated)"] += cc.states;
        rep.probes["crash-states"] += cc.states;
        rep.hash.u64(cc.states);

        if (!cc.bad.empty())
        {
            static char const* const kinds[] = {"open/truncate", "open", "write", "close", "rename", "remove", "end"};
            int const kind = (cc.bad_event < trace.size()) ? trace[cc.bad_event].kind : 6;
            rep.fail("C18", "incomplete-file", "truncate in place", fmt(
                "killed at file system event %zu (%s)%s: the checkpoint file holds %zu bytes that are neither the "
                "previous nor the new complete checkpoint", cc.bad_event, kinds[kind],
                cc.bad_prefix == 0 ? " before it took effect" : cc.bad_prefix == ~0ULL ? "" :
                fmt(" after %llu bytes", (unsigned long long) cc.bad_prefix).c_str(),
                cc.bad == "<empty file>" ? std::size_t(0) : cc.bad.size()));

            // what resuming from such a file does (informational: part of the same finding)
            return;
        }

        // resume from every distinct complete content (and from no file)
        for (std::size_t k = 0; k < texts.size(); ++k)
        {
            std::unique_ptr<IWorld> nw = make_world(p.nt, p.eng);
            LoadInfo info;
            ++rep.restarts;
            if (k == 0)
            {
                nw->fresh(p);
            }
            else if (!nw->load(p, texts[k], info))
            {
                rep.fail("C18", "complete-file-not-readable", key, "a complete checkpoint file could not be read back");
                return;
            }
            if (k == p.calls.size())
            {
                if (nw->text() != final_text)
                {
                    rep.fail("C18", "resume-differs", key, "reading the last file back gives another checkpoint");
                    return;
                }
                continue;
            }
            std::vector<u64> rest(p.calls.begin() + k, p.calls.end());
            fs().reset();
            RunCtl c2 = base_ctl;
            c2.log_text = false;
            RunOut const o2 = nw->run(p, rest, c2);
            absorb(o2, rep);
            if (o2.threw || o2.killed) return;
            if (nw->text() != final_text)
            {
                rep.fail("C18", "resume-differs", key, fmt(
                    "resuming from the complete file of iteration %zu does not lead to the result of the uninterrupted run", k));
                return;
            }
        }

        return;
    }

    // executed crash sequences: up to four kills and restarts in a row
    fs().reset();
    std::unique_ptr<IWorld> w = make_world(p.nt, p.eng);
    w->fresh(p);
    std::size_t next_fault = 0;
    int incarnations = 0;

    for (;;)
    {
        if (++incarnations > 12) return;
        u64 const done = w->nresults();
        if (done >= p.calls.size()) break;
        std::vector<u64> rest(p.calls.begin() + done, p.calls.end());
        RunCtl c = base_ctl;
        c.log_text = false;
        if (next_fault < p.faults.size())
        {
            Fault const& f = p.faults[next_fault++];
            if (f.kind == FLT_KILL_FS)
            {
                c.fs_faults.push_back(f);
            }
            else
            {
                c.kill_armed = true;
                c.kill_iter = static_cast<std::uint32_t>(std::min<u64>(std::max<u64>(f.a, done), p.calls.size() - 1));
                c.kill_call = f.b % std::max<u64>(1, p.calls[c.kill_iter]);
                c.kill_rank = 0;
            }
        }
        // now and then the restarted program does not ask for checkpoints (same file name, silent mode):
        // whatever an earlier kill left next to the checkpoint must stay where it is
        bool const quiet = incarnations > 1 && (mix2(p.aux[0], 900 + incarnations) % 4) == 0;
        if (quiet)
        {
            c.mode = (mix2(p.aux[0], 950 + incarnations) & 1) ? 2 : 0;
            rep.probes["restart-in-a-non-writing-mode"]++;
        }
        u64 const kills_before = fs().n_kill;
        RunOut const o = w->run(p, rest, c);
        absorb(o, rep);
        rep.fs_events += fs().nevent;
        if (o.threw)
        {
            // no run of the unchanged library throws here: an incarnation that cannot even start from
            // what the previous one left behind does not "lead to the same final result"
            rep.fail("C18", "restarted-run-throws", key, fmt("incarnation %d ended with an exception: %s", incarnations,
                o.what.c_str()));
            return;
        }
        // whether the incarnation was killed or ran to its end: the file, if there is one, is complete
        auto it = fs().files.find(CHK);
        if (it != fs().files.end())
        {
            bool complete = false;
            for (std::size_t j = 1; j < texts.size(); ++j) complete = complete || (texts[j] == it->second);
            if (!complete)
            {
                rep.fail("C18", "incomplete-file", quiet ? "restart in a non-writing mode" : "truncate in place", fmt(
                    "after incarnation %d (%s) the checkpoint file holds %zu bytes that are no complete checkpoint",
                    incarnations, o.killed ? "killed" : "ran to its end", it->second.size()));
                return;
            }
        }

        if (!o.killed) break;
        if (fs().n_kill != kills_before) rep.faults["kill-at-fs-event"]++;
        else rep.faults["kill-at-call"] += 0;   // counted by absorb

        // restart from what survived
        std::unique_ptr<IWorld> nw = make_world(p.nt, p.eng);
        ++rep.restarts;
        if (it == fs().files.end())
        {
            nw->fresh(p);
        }
        else
        {
            LoadInfo info;
            if (!nw->load(p, it->second, info))
            {
                rep.fail("C18", "complete-file-not-readable", key, "file left by a kill could not be read back");
                return;
            }
        }
        w = std::move(nw);
    }

    if (w->nresults() == p.calls.size() && w->text() != final_text)
    {
        rep.fail("C18", "resume-differs", key, fmt("after %d incarnations the final checkpoint differs from the uninterrupted run",
            incarnations));
    }
}

Scenario const scen_fscrash = {"fscrash", gen_fscrash, exec_fscrash};

// ------------------------------------------------------------------------------------------------
// modes: C20

static Plan gen_modes(Rng& r, int tier, std::string const&)
{
    Plan p;
    p.scn = "modes";
    GenOpts o;
    o.max_calls = tier ? 200 : 60;
    o.max_iters = 4;
    o.allow_zero_calls = false;
    gen_world(r, p, o);
    for (auto& c : p.calls) c = std::max<u64>(c, 2);
    if (p.integ == MULTI || r.chance(0.3))
    {
        p.integ = MULTI;
        static u64 const ch[] = {1, 2, 3, 12, 13, 14, 40};
        p.chan = r.chance(0.7) ? r.pick(ch) : 1 + r.below(40);
        p.minw = r.chance(0.5) ? 0.0L : static_cast<ld>(static_cast<float>(0.9 * r.unit() / p.chan));
    }
    static int const fk[] = {F_POLY, F_PEAK, F_ZERO, F_CONST, F_SELECT, F_SPARSE, F_SIGN};
    p.fk = r.pick(fk);
    p.cbk = 0;
    p.target = 0;
    {
        // a target precision: the stop decision must not depend on the mode either
        static ld const targets[] = {0.5L, 0.2L, 0.1L, 0.03L, 0.01L, 0.001L};
        if (r.chance(0.5)) p.target = r.pick(targets);
    }
    // distribution names: anything a user may write (they end up in the file of the writing modes)
    if (r.chance(0.4)) for (auto& d : p.dists) d.name = "d";
    if (r.chance(0.3))
    {
        Fault f;
        f.kind = FLT_POISON_HASH;
        f.c = POISON_NAN;
        f.v = static_cast<u64>(4294967296.0 * (r.chance(0.3) ? 1.0 : 0.2));
        if (f.v > 0xffffffffULL) f.v = 0xffffffffULL;
        p.faults.push_back(f);
    }
    p.P = r.chance(0.3) ? 1 + r.below(5) : 0;
    p.variant = r.below(3);   // 1: disk faults in the writing modes, 2: failing std::cout
    p.aux.assign(1, r.next());
    return p;
}

static bool summary_complete(std::string const& out, Plan const& p, std::string& why)
{
    // every "in channel #i" / "#a-b" index must be a valid channel
    for (std::size_t pos = 0; (pos = out.find('#', pos)) != std::string::npos; ++pos)
    {
        std::size_t i = pos + 1;
        while (i < out.size() && (std::isdigit(static_cast<unsigned char>(out[i])) || out[i] == ',' || out[i] == '-'))
        {
            std::size_t j = i;
            u64 v = 0;
            bool any = false;
            while (j < out.size() && std::isdigit(static_cast<unsigned char>(out[j])))
            {
                v = v * 10 + (out[j] - '0');
                ++j;
                any = true;
            }
            if (any && v >= p.chan)
            {
                why = fmt("summary prints channel #%llu of %llu", (unsigned long long) v, (unsigned long long) p.chan);
                return false;
            }
            i = (j == i) ? i + 1 : j;
        }
    }
    return true;
}

static void exec_modes(Plan const& p, Report& rep)
{
    std::string const key = fmt("%s %s%s", integ_name(p.integ), nt_name(p.nt), p.P ? " mpi" : "");
    rep.nontrivial = true;
    std::string text[4];
    std::vector<std::string> iter_texts[4];
    u64 results[4] = {0, 0, 0, 0};
    Rng fr(p.aux[0]);

    for (int mode = 0; mode != 4; ++mode)
    {
        Plan q = p;
        q.mode = mode;
        Session s(q, rep);
        s.check = (mode == 0);
        s.fresh();
        fs().reset();
        RunCtl c = ctl_from_plan(q);
        c.filename = CHK;
        bool faulty = false;

        if (p.variant == 1 && (mode == 1 || mode == 3))
        {
            for (u64 e = 0; e != 200; ++e)
            {
                if (fr.chance(0.2))
                {
                    Fault f;
                    u64 const k = fr.below(5);
                    f.kind = (k == 0) ? FLT_SHORT_WRITE : (k == 1) ? FLT_EINTR : FLT_IO_ERROR;
                    f.a = e;
                    f.b = (f.kind == FLT_IO_ERROR) ? (fr.chance(0.5) ? 28 : 5) : fr.next();   // ENOSPC / EIO
                    c.fs_faults.push_back(f);
                    faulty = true;
                }
            }
        }

        if (p.variant == 2 && mode >= 2)
        {
            c.cout_limit = fr.below(400);
            faulty = true;
        }

        RunOut const o = s.run(q.calls, c);
        rep.faults["short-write"] += fs().n_short;
        rep.faults["eintr"] += fs().n_eintr;
        rep.faults["io-error"] += fs().n_ioerr;
        if (o.cout_failed != 0) rep.faults["cout-fail"] += 1;

        if (o.threw)
        {
            rep.fail("C20", "exception", key, fmt("mode %d: %s", mode, o.what.c_str()));
            return;
        }
        if (o.hang && mode != 0)
        {
            // the job never ends in this mode (ranks that took different decisions wait for each other)
            rep.fail("C20", "hang", key, fmt("mode %d: %s", mode, o.hang_why.c_str()));
            return;
        }
        if (o.killed || o.hang) return;

        text[mode] = s.w->text();
        results[mode] = o.results;
        for (auto const& cb : o.ranks[0].cbs) iter_texts[mode].push_back(cb.text);

        if (p.P != 0)
        {
            for (std::size_t r = 1; r < o.rank_texts.size(); ++r)
            {
                if (o.rank_texts[r] != o.rank_texts[0])
                {
                    rep.fail("C20", "ranks-differ", key, fmt("mode %d: rank %zu returned another checkpoint than rank 0", mode, r));
                    return;
                }
            }
            if ((o.cout_writers & ~1) != 0)
            {
                rep.fail("C20", "output-from-non-root", key, fmt("mode %d: ranks other than 0 printed (mask %x)", mode,
                    o.cout_writers));
                return;
            }
            if ((fs().writer_rank_mask & ~1) != 0)
            {
                rep.fail("C20", "file-from-non-root", key, fmt("mode %d: ranks other than 0 wrote a file (mask %x)", mode,
                    fs().writer_rank_mask));
                return;
            }
        }

        if (mode < 2 && !o.cout_text.empty())
        {
            rep.fail("C20", "silent-mode-prints", key, fmt("mode %d printed %zu bytes", mode, o.cout_text.size()));
            return;
        }

        if (mode >= 2 && !faulty)
        {
            if (o.cout_text.empty())
            {
                rep.fail("C20", "verbose-mode-silent", key, fmt("mode %d printed nothing", mode));
                return;
            }
            std::string why;
            if (p.integ == MULTI && !summary_complete(o.cout_text, p, why))
            {
                rep.fail("C20", "summary-malformed", key, why);
                return;
            }
            if (p.integ == MULTI && p.chan > 12) rep.probes["summary-many-channels"]++;
        }

        if ((mode == 1 || mode == 3) && !faulty)
        {
            auto it = fs().files.find(CHK);
            if (it == fs().files.end() || it->second != text[mode])
            {
                rep.fail("C20", "file-differs", key, fmt("mode %d: the checkpoint file is not the returned checkpoint", mode));
                return;
            }
        }
        if ((mode == 0 || mode == 2) && fs().n_events_total != 0)
        {
            rep.fail("C20", "non-writing-mode-writes", key, fmt("mode %d touched the file system", mode));
            return;
        }
    }

    if (p.integ == MULTI && p.P == 0 && p.variant == 0 && (mix2(p.fseed, 8080) % 3) == 0)
    {
        // the same integrand on a checkpoint class of the user's own (not derived from
        // multi_channel_chkpt) with the built-in callback
        std::unique_ptr<IWorld> w = make_world(p.nt, p.eng);
        fs().reset();
        std::string const why = w->user_chkpt_modes(p, p.calls, ctl_from_plan(p));
        fs().reset();
        rep.probes["user-defined-checkpoint-class"]++;
        if (!why.empty())
        {
            rep.fail("C20", "user-checkpoint-class", key, why);
            return;
        }
    }

    for (int mode = 1; mode != 4; ++mode)
    {
        if (results[mode] != results[0] || text[mode] != text[0])
        {
            std::string k = key;
            rep.fail("C20", "modes-differ", k, fmt(
                "callback mode %d returns another checkpoint than mode 0 (%llu vs %llu results)", mode,
                (unsigned long long) results[mode], (unsigned long long) results[0]));
            return;
        }
        if (iter_texts[mode] != iter_texts[0])
        {
            rep.fail("C20", "iteration-texts-differ", key, fmt("callback mode %d hands other checkpoints to the callback than mode 0", mode));
            return;
        }
    }
}

Scenario const scen_modes = {"modes", gen_modes, exec_modes};

// ------------------------------------------------------------------------------------------------
// mpi: C04, C16 (+ C12, C19, C20 under MPI)

static Plan gen_mpi(Rng& r, int tier, std::string const& focus)
{
    Plan p;
    p.scn = "mpi";
    GenOpts o;
    o.max_calls = tier ? 400 : 120;
    o.max_iters = 4;
    // the tiling does not depend on the engine, what a call costs does: half of the C16 plans use the
    // plain scripted engine, the others any engine (cost of a number differs between numeric types)
    bool const c16_scripted = (focus == "C16") && r.chance(0.5);
    if (c16_scripted) o.eng_class = 1;
    if (focus == "C10") o.eng_class = r.chance(0.7) ? 3 : 0;
    if (focus == "C08") o.integ = MULTI;
    gen_world(r, p, o);
    if (c16_scripted) p.eng = E_SCRIPT64;
    static u64 const ps[] = {1, 2, 2, 3, 3, 4, 5, 7, 8, 8, 11, 13, 16, 17, 32, 33};
    p.P = r.chance(0.85) ? r.pick(ps) : 1 + r.below(33);
    if (!tier && p.P > 17 && r.chance(0.7)) p.P = 2 + r.below(7);
    // calls below the world size, not divisible, zero
    for (auto& c : p.calls)
    {
        u64 const k = r.below(10);
        if (k == 0) c = r.below(p.P + 1);
        else if (k == 1) c = p.P * (1 + r.below(5));
        else if (k == 2) c = 0;
    }
    for (auto& d : p.dists) d.name = "d";
    p.cbk = r.chance(0.5) ? 1 : 0;
    p.mode = static_cast<int>(r.below(2));   // silent / silent_and_write; printing is covered by modes
    p.target = 0;
    if (p.cbk == 0)
    {
        for (auto& c : p.calls) c = std::max<u64>(c, 2);
        if (p.fk == F_ZERO || p.fk == F_CONST) p.fk = F_POLY;
        // early stop by target precision: every rank has to take the same decision
        static ld const targets[] = {0.5L, 0.2L, 0.1L, 0.03L, 0.01L, 0.001L};
        if (r.chance(0.5)) p.target = r.pick(targets);
    }
    p.stop = (p.cbk == 1 && r.chance(0.2)) ? static_cast<std::int64_t>(1 + r.below(p.calls.size())) : -1;
    p.variant = r.below(4);   // stall probability class; 3 = with poison
    if (p.variant == 3 && r.chance(0.5))
    {
        Fault f;
        f.kind = FLT_POISON_HASH;
        f.c = POISON_NAN | POISON_PINF;
        f.v = static_cast<u64>(4294967296.0 * 0.05);
        p.faults.push_back(f);
    }
    p.aux.assign(2, 0);
    if (focus == "C03")
    {
        // stop and restart with the same world size, compared with the job that never stopped
        while (p.calls.size() < 3) p.calls.push_back(r.below(2 * p.P + 2));
        p.target = 0;
        p.stop = -1;
        p.rorder = 0;
        p.aux[0] = 1 + r.below(p.calls.size() - 1);
        p.aux[1] = p.P;
        // an iteration with fewer calls than ranks before the stop (ranks with an empty share must
        // stay in step with the stream), iterations that engage every rank after it
        if (p.P >= 3 && r.chance(0.6)) p.calls[r.below(p.aux[0])] = r.below(p.P - 1);
        p.calls.back() = std::max<u64>(p.calls.back(), 2 * p.P + r.below(50));
        if (p.cbk == 0) for (auto& c : p.calls) c = std::max<u64>(c, 2);
    }
    else if (p.calls.size() >= 2 && r.chance(0.25))
    {
        p.aux[0] = 1 + r.below(p.calls.size() - 1);
        p.aux[1] = r.chance(0.5) ? p.P : 1 + r.below(9);
    }
    p.aux.push_back(0);
    if (focus != "C03" && p.aux[0] == 0 && p.P >= 2 && p.P % 2 == 0 && r.chance(0.12))
    {
        // the world is split into two halves, each half runs the same job on its sub-communicator
        p.aux[2] = p.P / 2;
        p.rorder = 0;
        p.target = 0;
    }
    // canonical numbers of exactly 0 and the largest value below 1 somewhere in the stream: whatever a
    // rank does with such a number, it costs what every other number costs
    add_extreme_draws(r, p, 0.4);
    if (r.chance((focus == "C06") ? 0.008 : tier ? 0.0015 : 0.0008))
    {
        // volume run: more calls than a float can count (2^24), in the thorough tier rarely more than
        // an int can count (2^31); no call logs, counters and tiling from the cheap statistics
        p.variant = 9;
        p.integ = PLAIN;
        p.nt = NT_F;
        p.eng = E_SCRIPT32;
        p.dims = 1;
        p.acc = 0;
        p.dists.clear();
        p.fk = F_CONST;
        p.fmag = 0;
        p.faults.clear();
        p.cbk = 1;
        p.stop = -1;
        p.target = 0;
        p.P = 1 + r.below(3);
        p.aux.assign(3, 0);
        bool const huge = tier && r.chance(0.02);
        p.calls.assign(1, (huge ? (1ULL << 31) : (1ULL << 24)) + 1 + r.below(6));
        if (huge) p.P = 2 + r.below(2);
        if (r.chance(focus == "C06" ? 0.9 : 0.4))
        {
            // a handful of evaluations that are not finite: one more or less in 2^24 must still be counted
            Fault f;
            f.kind = FLT_POISON_HASH;
            f.c = POISON_NAN;
            f.v = 256 + r.below(4096);   // density in 1/2^32: about 2^24 * v / 2^32 of the points (1 .. 17)
            p.faults.push_back(f);
        }
    }
    if (r.chance(0.3))
    {
        Fault f;
        f.kind = FLT_STALL;
        f.a = r.below(p.P);
        f.b = 1 + r.below(40);
        p.faults.push_back(f);
    }
    return p;
}

// one MPI segment (a run of the mpi_* integrator on the session's checkpoint) with all C04 / C16 oracles
static bool mpi_segment(Plan const& p, Session& s, std::vector<u64> const& seg_calls, u64 P, RunCtl ctl, Report& rep,
    bool* completed = nullptr)
{
    if (completed != nullptr) *completed = false;
    std::string const key = fmt("%s %s %s", integ_name(p.integ), nt_name(p.nt), engine_name(p.eng));
    ld const eps = eps_of(p.nt);
    ld const denorm = (p.nt == NT_F) ? std::ldexp(1.0L, -149) : (p.nt == NT_D) ? std::ldexp(1.0L, -1074) : std::ldexp(1.0L, -16445);
    ctl.P = P;
    bool const volume = (p.variant == 9);
    if (volume)
    {
        ctl.log_calls = false;
        ctl.log_text = false;
        s.check = false;
    }
    RunOut const o = s.run(seg_calls, ctl);

    if (o.threw)
    {
        rep.fail("C04", "exception", key, o.what);
        return false;
    }
    if (o.hang || o.killed) return false;   // hang already reported by the session
    if (completed != nullptr) *completed = true;

    ChkptView const v = s.w->view();
    UsageInfo const ui = s.w->usage();
    u64 const numbers = p.dims + (p.integ == MULTI ? 1 : 0);
    u64 const per_call = numbers * ui.predicted;

    // C16: tiling of the engine positions
    auto const tiling = [&]()
    {
        u64 coll = 0;
        u64 start = 0;   // position (raw outputs consumed) at which the iteration starts, same on every rank
        for (u64 k = o.base; k < o.results; ++k)
        {
            u64 const N = seg_calls[k - o.base];
            std::vector<u64> first(P, ~0ULL), count(P, 0), enter(P, 0);
            for (u64 r = 0; r != P; ++r)
            {
                // from the cheap per iteration statistics (available in volume runs without call logs too)
                auto const st = o.ranks[r].stats.find(static_cast<std::uint32_t>(k));
                if (st != o.ranks[r].stats.end() && st->second.calls != 0)
                {
                    count[r] = st->second.calls;
                    first[r] = st->second.first_pos - per_call;   // position before the draws of the first call
                }
                if (coll < o.ranks[r].colls.size()) enter[r] = o.ranks[r].colls[coll].pos;
            }
            u64 total = 0, mn = ~0ULL, mx = 0;
            for (u64 r = 0; r != P; ++r)
            {
                total += count[r];
                mn = std::min(mn, count[r]);
                mx = std::max(mx, count[r]);
            }
            std::string const k16 = fmt("total=%llu world=%llu", (unsigned long long) N, (unsigned long long) P);
            if (total != N || mx - mn > 1)
            {
                rep.fail("C16", "share-sizes", k16, fmt("iteration %llu: shares sum to %llu (min %llu, max %llu), total is %llu",
                    (unsigned long long) k, (unsigned long long) total, (unsigned long long) mn, (unsigned long long) mx,
                    (unsigned long long) N));
                return;
            }
            u64 expect = start;
            for (u64 r = 0; r != P; ++r)
            {
                if (count[r] != 0 && first[r] != expect)
                {
                    rep.fail("C16", "gap-or-overlap", k16, fmt(
                        "iteration %llu: rank %llu starts at stream position %llu, the shares before it end at %llu",
                        (unsigned long long) k, (unsigned long long) r, (unsigned long long) first[r],
                        (unsigned long long) expect));
                    return;
                }
                expect += count[r] * per_call;
                if (enter[r] != start + N * per_call)
                {
                    rep.fail("C16", "end-position", k16, fmt(
                        "iteration %llu: rank %llu enters the collective at stream position %llu, expected %llu",
                        (unsigned long long) k, (unsigned long long) r, (unsigned long long) enter[r],
                        (unsigned long long) (start + N * per_call)));
                    return;
                }
                if (count[r] == 0) rep.probes["empty-share"]++;
            }
            start += N * per_call;
            coll += 2;
        }
    };
    tiling();

    // C10 under MPI: every process leaves the run with its generator advanced by calls x cost of a call,
    // whether it evaluated any of the calls or not
    if (!volume)
    {
        u64 total = 0;
        for (u64 k = o.base; k < o.results; ++k) total += seg_calls[k - o.base] * per_call;
        for (u64 r = 0; r != P; ++r)
        {
            if (o.ranks[r].pos != total)
            {
                rep.fail("C10", "mpi-generator-position", key, fmt(
                    "rank %llu of %llu leaves the run at stream position %llu, calls x cost is %llu",
                    (unsigned long long) r, (unsigned long long) P, (unsigned long long) o.ranks[r].pos,
                    (unsigned long long) total));
                break;
            }
        }
    }

    // (a) same collectives on every rank
    for (u64 r = 1; r < P; ++r)
    {
        auto const& a = o.ranks[0].colls;
        auto const& b = o.ranks[r].colls;
        bool same = a.size() == b.size();
        for (std::size_t i = 0; same && i != a.size(); ++i) same = a[i].count == b[i].count && a[i].dtype == b[i].dtype;
        if (!same)
        {
            rep.fail("C04", "collectives-differ", key, fmt("rank %llu executed another sequence of collectives than rank 0",
                (unsigned long long) r));
            return false;
        }
    }

    // (e) all ranks return the same checkpoint, file from rank 0 only
    for (u64 r = 1; r < o.rank_texts.size(); ++r)
    {
        if (o.rank_texts[r] != o.rank_texts[0])
        {
            rep.fail("C04", "ranks-differ", key, fmt("rank %llu returned another checkpoint than rank 0", (unsigned long long) r));
            return false;
        }
    }
    if ((fs().writer_rank_mask & ~1) != 0)
    {
        rep.fail("C04", "file-from-non-root", key, "a rank other than 0 wrote a checkpoint file");
        return false;
    }

    if (volume)
    {
        // counters against the cheap statistics of the scripted integrand
        rep.probes[seg_calls[0] > (1ULL << 30) ? "volume-run-2^31" : "volume-run-2^24"]++;
        for (u64 k = o.base; k < o.results && k < v.results.size(); ++k)
        {
            u64 calls = 0, nz = 0, fin = 0;
            for (auto const& c : o.ranks)
            {
                auto const st = c.stats.find(static_cast<std::uint32_t>(k));
                if (st == c.stats.end()) continue;
                calls += st->second.calls;
                nz += st->second.nz;
                fin += st->second.fin;
            }
            ResultView const& rv = v.results[k];
            rep.calls += calls;
            if (nz != fin) rep.probes["volume-run-with-non-finite-evaluations"]++;
            if (rv.nz - rv.fin != nz - fin || !std::isfinite(rv.sum) || !std::isfinite(rv.sumsq))
            {
                rep.fail("C06", "non-finite-count", fmt("%s %s mpi volume", integ_name(p.integ), nt_name(p.nt)), fmt(
                    "iteration %llu with %llu calls: %llu evaluations were not finite, the result counts %llu non-zero and %llu finite (sum %.9Lg)",
                    (unsigned long long) k, (unsigned long long) seg_calls[k - o.base], (unsigned long long) (nz - fin),
                    (unsigned long long) rv.nz, (unsigned long long) rv.fin, rv.sum));
            }
            if (rv.calls != seg_calls[k - o.base] || calls != rv.calls || rv.nz != nz || rv.fin != fin)
            {
                rep.fail("C04", "counters-differ", key, fmt(
                    "iteration %llu with %llu calls: counters (%llu, %llu, %llu), the integrand was entered %llu times with %llu non-zero and %llu finite values",
                    (unsigned long long) k, (unsigned long long) seg_calls[k - o.base], (unsigned long long) rv.calls,
                    (unsigned long long) rv.nz, (unsigned long long) rv.fin, (unsigned long long) calls,
                    (unsigned long long) nz, (unsigned long long) fin));
                rep.fail("C02", "non-zero-calls", fmt("%s %s mpi volume", integ_name(p.integ), nt_name(p.nt)), fmt(
                    "iteration %llu: counters (%llu, %llu, %llu) for %llu evaluations, %llu non-zero, %llu finite",
                    (unsigned long long) k, (unsigned long long) rv.calls, (unsigned long long) rv.nz,
                    (unsigned long long) rv.fin, (unsigned long long) calls, (unsigned long long) nz,
                    (unsigned long long) fin));
                return false;
            }
        }
        return true;
    }

    // (b) - (d): per iteration against the public serial iteration
    for (u64 k = o.base; k < o.results; ++k)
    {
        SerialRef const ref = s.w->serial_iteration(p, k, ctl);
        if (!ref.ok)
        {
            rep.fail("C04", "serial-reference-failed", key, fmt("iteration %llu", (unsigned long long) k));
            return false;
        }
        rep.calls += ref.log.calls.size();

        // points in rank order must be the serial list
        std::vector<std::pair<Ctx const*, CallRec const*>> par;
        for (u64 r = 0; r != P; ++r)
        {
            for (auto const& rec : o.ranks[r].calls)
            {
                if (rec.iter == k) par.emplace_back(&o.ranks[r], &rec);
            }
        }
        if (par.size() != ref.log.calls.size())
        {
            rep.fail("C04", "point-count", key, fmt("iteration %llu: ranks evaluated %zu points, serial iteration %zu",
                (unsigned long long) k, par.size(), ref.log.calls.size()));
            return false;
        }

        // multiset comparison: sort both by the bit patterns of the random numbers
        auto keyof = [&](Ctx const& c, CallRec const& r) {
            Fnv h;
            for (u64 j = 0; j != p.dims; ++j) h.ld(c.arena[r.off_u + j]);
            h.u64(r.channel);
            if (p.integ == VEGAS) for (u64 j = 0; j != p.dims; ++j) h.u64(c.bins[r.off_bin + j]);
            if (p.integ == MULTI) for (u64 j = 0; j != c.mapd; ++j) h.ld(c.arena[r.off_c + j]);
            h.ld(r.f);
            return h.h;
        };
        std::vector<u64> a, b;
        for (auto const& pr : par) a.push_back(keyof(*pr.first, *pr.second));
        for (auto const& rec : ref.log.calls) b.push_back(keyof(ref.log, rec));
        bool const in_order = (a == b);
        std::sort(a.begin(), a.end());
        std::sort(b.begin(), b.end());
        if (a != b)
        {
            rep.fail("C04", "points-differ", key, fmt(
                "iteration %llu with %llu ranks: the multiset of evaluated points differs from the serial iteration",
                (unsigned long long) k, (unsigned long long) P));
            return false;
        }
        if (in_order) rep.probes["points-in-rank-order"]++;

        ResultView const& rv = v.results[k];
        ResultView const& sv = ref.result;
        if (rv.calls != sv.calls || rv.nz != sv.nz || rv.fin != sv.fin)
        {
            rep.fail("C04", "counters-differ", key, fmt(
                "iteration %llu: counters (%llu, %llu, %llu), serial (%llu, %llu, %llu)", (unsigned long long) k,
                (unsigned long long) rv.calls, (unsigned long long) rv.nz, (unsigned long long) rv.fin,
                (unsigned long long) sv.calls, (unsigned long long) sv.nz, (unsigned long long) sv.fin));
            return false;
        }

        // magnitudes for the tolerances
        ld sumabs = 0, sumsq = 0;
        for (auto const& rec : ref.log.calls)
        {
            ld w = 0;
            if (rec.f == 0 || !call_weight(ref.log, rec, rv, w)) continue;
            ld const val = rec.f * w;
            if (!std::isfinite(val)) continue;
            sumabs += std::fabs(val);
            sumsq += val * val;
        }
        u64 const N = rv.calls;
        if (!(std::fabs(rv.sum - sv.sum) <= (P + 4) * eps * sumabs + (N + P + 8) * denorm))
        {
            rep.fail("C04", "sum-differs", key, fmt("iteration %llu: sum %.21Lg, serial %.21Lg", (unsigned long long) k,
                rv.sum, sv.sum));
            return false;
        }
        if (!(std::fabs(rv.sumsq - sv.sumsq) <= (2 * N + P + 4) * eps * sumsq + (N + P + 8) * denorm))
        {
            rep.fail("C04", "sumsq-differs", key, fmt("iteration %llu: sum of squares %.21Lg, serial %.21Lg",
                (unsigned long long) k, rv.sumsq, sv.sumsq));
            return false;
        }
        if (rv.adj.size() != sv.adj.size())
        {
            rep.fail("C04", "adjustment-size", key, fmt("iteration %llu", (unsigned long long) k));
            return false;
        }
        for (std::size_t j = 0; j != rv.adj.size(); ++j)
        {
            ld const scale = std::max(std::fabs(rv.adj[j]), std::fabs(sv.adj[j]));
            if (!(std::fabs(rv.adj[j] - sv.adj[j]) <= (2 * N + P + 16) * eps * scale + (N + P + 8) * denorm))
            {
                rep.fail("C04", "adjustment-differs", key, fmt("iteration %llu entry %zu: %.21Lg, serial %.21Lg",
                    (unsigned long long) k, j, rv.adj[j], sv.adj[j]));
                return false;
            }
        }
        if (rv.dists.size() != sv.dists.size())
        {
            rep.fail("C04", "distribution-count", key, fmt("iteration %llu", (unsigned long long) k));
            return false;
        }
        for (std::size_t d = 0; d != rv.dists.size(); ++d)
        {
            auto const& pb = rv.dists[d].bins;
            auto const& sb = sv.dists[d].bins;
            if (pb.size() != sb.size())
            {
                rep.fail("C04", "bin-count", key, fmt("iteration %llu distribution %zu", (unsigned long long) k, d));
                return false;
            }
            for (std::size_t i = 0; i != pb.size(); ++i)
            {
                if (pb[i].calls != sb[i].calls || pb[i].nz != sb[i].nz || pb[i].fin != sb[i].fin)
                {
                    rep.fail("C04", "bin-counters-differ", key, fmt(
                        "iteration %llu distribution %zu bin %zu: (%llu, %llu, %llu), serial (%llu, %llu, %llu)",
                        (unsigned long long) k, d, i, (unsigned long long) pb[i].calls, (unsigned long long) pb[i].nz,
                        (unsigned long long) pb[i].fin, (unsigned long long) sb[i].calls, (unsigned long long) sb[i].nz,
                        (unsigned long long) sb[i].fin));
                    return false;
                }
                ld const sc = std::max(std::fabs(pb[i].sum), std::fabs(sb[i].sum));
                ld const sq = std::max(pb[i].sumsq, sb[i].sumsq);
                // cancellation inside a bin: scale by the root of the sum of squares times calls
                ld const mag = std::max(sc, std::sqrt(sq * std::max<ld>(1, pb[i].fin)));
                // (in the subnormal range every partial sum carries an absolute error of half the smallest
                // subnormal, whatever its magnitude)
                if (!(std::fabs(pb[i].sum - sb[i].sum) <= (P + 8) * eps * mag + (N + P + 8) * denorm) ||
                    !(std::fabs(pb[i].sumsq - sb[i].sumsq) <= (2 * N + P + 8) * eps * sq + (N + P + 8) * denorm))
                {
                    rep.fail("C04", "bin-sums-differ", key, fmt(
                        "iteration %llu distribution %zu bin %zu: sum %.21Lg serial %.21Lg, sumsq %.21Lg serial %.21Lg",
                        (unsigned long long) k, d, i, pb[i].sum, sb[i].sum, pb[i].sumsq, sb[i].sumsq));
                    return false;
                }
            }
        }

        // (d) generator stored after iteration k
        if (k + 1 < v.gen_texts.size() && v.gen_texts[k + 1] != ref.gen_after)
        {
            rep.fail("C04", "stored-generator-differs", key, fmt(
                "iteration %llu: generator stored by the parallel run is not the serial generator after the iteration",
                (unsigned long long) k));
            return false;
        }
    }

    return true;
}

static void exec_mpi(Plan const& p, Report& rep)
{
    std::string const key = fmt("%s %s %s", integ_name(p.integ), nt_name(p.nt), engine_name(p.eng));
    u64 const P = p.P;
    rep.nontrivial = (P > 1);
    fs().reset();

    // the paired poisoned / zeroed run under MPI (C06) first: it does not depend on the other oracles
    if (p.variant == 3 && !p.faults.empty() && p.faults[0].kind == FLT_POISON_HASH)
    {
        exec_poison_on(p, rep);
        fs().reset();
    }

    Session s(p, rep);
    s.fresh();
    RunCtl ctl = ctl_from_plan(p);
    ctl.filename = CHK;
    ctl.stall_p = (p.variant == 0) ? 0.0 : (p.variant == 1) ? 0.05 : 0.25;

    if (p.aux.size() >= 3 && p.aux[2] != 0 && 2 * p.aux[2] == P && p.variant != 9)
    {
        // two sub-communicators of equal size run the same job side by side; with rank-order
        // reduction each must end exactly as a job on a world of that size does
        u64 const a = p.aux[2];
        rep.probes["split-communicator"]++;
        Report scratch;
        Session ref(p, scratch);
        ref.check = false;
        ref.fresh();
        RunCtl rc = ctl;
        rc.P = a;
        RunOut const ro = ref.run(p.calls, rc);
        if (ro.threw || ro.killed || ro.hang) return;
        std::string const want = ref.w->text();

        s.check = false;
        RunCtl sc = ctl;
        sc.P = P;
        sc.comm_split = a;
        RunOut const o = s.run(p.calls, sc);
        if (o.threw)
        {
            rep.fail("C04", "exception", key, o.what);
            return;
        }
        if (o.hang || o.killed) return;   // hang reported by the session

        UsageInfo const ui = s.w->usage();
        u64 const per_call = (p.dims + (p.integ == MULTI ? 1 : 0)) * ui.predicted;

        for (u64 g = 0; g < 2; ++g)
        {
            // tiling inside the group (C16)
            u64 start = 0;
            for (u64 k = 0; k < ro.results; ++k)
            {
                u64 const N = p.calls[k];
                u64 expect = start, total = 0;
                for (u64 r = 0; r != a; ++r)
                {
                    Ctx const& c = o.ranks[g * a + r];
                    auto const st = c.stats.find(static_cast<std::uint32_t>(k));
                    u64 const cnt = (st == c.stats.end()) ? 0 : st->second.calls;
                    u64 const want_cnt = N / a + (r < N % a ? 1 : 0);
                    std::string const k16 = fmt("total=%llu world=%llu sub-communicator", (unsigned long long) N,
                        (unsigned long long) a);
                    if (cnt != want_cnt)
                    {
                        rep.fail("C02", "evaluations", fmt("%s %s mpi sub-communicator", integ_name(p.integ), nt_name(p.nt)), fmt(
                            "iteration %llu, group %llu: rank %llu of a communicator of %llu ranks evaluated %llu of %llu calls, its share is %llu",
                            (unsigned long long) k, (unsigned long long) g, (unsigned long long) r, (unsigned long long) a,
                            (unsigned long long) cnt, (unsigned long long) N, (unsigned long long) want_cnt));
                        rep.fail("C16", "share-sizes", k16, fmt(
                            "iteration %llu, group %llu, rank %llu of the sub-communicator: %llu calls, expected %llu",
                            (unsigned long long) k, (unsigned long long) g, (unsigned long long) r, (unsigned long long) cnt,
                            (unsigned long long) want_cnt));
                        g = 2;
                        break;
                    }
                    if (cnt != 0 && st->second.first_pos - per_call != expect)
                    {
                        rep.fail("C16", "gap-or-overlap", k16, fmt(
                            "iteration %llu, group %llu, rank %llu of the sub-communicator starts at stream position %llu, the shares before it end at %llu",
                            (unsigned long long) k, (unsigned long long) g, (unsigned long long) r,
                            (unsigned long long) (st->second.first_pos - per_call), (unsigned long long) expect));
                        g = 2;
                        break;
                    }
                    expect += cnt * per_call;
                    total += cnt;
                }
                if (g >= 2) break;
                start += N * per_call;
            }
        }

        for (u64 r = 0; r != o.rank_texts.size(); ++r)
        {
            if (o.rank_texts[r] != want)
            {
                rep.fail("C04", "sub-communicator-differs", key, fmt(
                    "world rank %llu (group %llu of a world split into halves of %llu) returned another checkpoint than a job on a world of %llu ranks",
                    (unsigned long long) r, (unsigned long long) (r / a), (unsigned long long) a, (unsigned long long) a));
                rep.fail("C16", "sub-communicator-differs", fmt("world=%llu sub-communicator", (unsigned long long) a), fmt(
                    "world rank %llu of a world split into halves of %llu ends elsewhere than on a world of that size",
                    (unsigned long long) r, (unsigned long long) a));
                return;
            }
        }
        return;
    }

    // aux = {split, P2}: the job is stopped after `split` iterations, restarted from the text with P2
    // ranks (a different world size is legal: only the text survives)
    u64 const split = (p.aux.size() >= 2 && p.aux[0] > 0 && p.aux[0] < p.calls.size() && p.stop < 0 && p.target == 0) ? p.aux[0] : 0;

    if (split == 0)
    {
        if (!mpi_segment(p, s, p.calls, P, ctl, rep)) return;
    }
    else
    {
        std::vector<u64> const first(p.calls.begin(), p.calls.begin() + split);
        std::vector<u64> const second(p.calls.begin() + split, p.calls.end());

        // with the same world size and rank-order reduction the sums do not depend on the schedule: the
        // stopped and restarted job must end with the text of the job that never stopped (C03 under MPI)
        std::string uninterrupted;
        if (p.aux[1] == P && p.rorder == 0 && p.variant != 9)
        {
            Report scratch;
            Session ref(p, scratch);
            ref.check = false;
            ref.fresh();
            RunCtl rc = ctl;
            rc.P = P;
            RunOut const ro = ref.run(p.calls, rc);
            if (!ro.threw && !ro.killed && !ro.hang && ro.results == p.calls.size()) uninterrupted = ref.w->text();
        }

        // the comparison with the job that never stopped is made whenever the runs completed, whatever
        // the per-iteration oracles of other properties said about them
        bool done1 = false, done2 = false;
        bool const ok1 = mpi_segment(p, s, first, P, ctl, rep, &done1);
        if (!done1 || (!ok1 && uninterrupted.empty())) return;
        if (s.w->nresults() != split) return;   // early stop
        if (!s.reload("mpi restart") && !s.reload_usable) return;
        rep.faults["mpi-restart-other-world-size"] += (p.aux[1] != P);
        ctl.sseed = mix2(ctl.sseed, 7);
        bool const ok2 = mpi_segment(p, s, second, std::max<u64>(1, p.aux[1]), ctl, rep, &done2);
        if (!done2 || (!ok2 && uninterrupted.empty())) return;
        if (!uninterrupted.empty())
        {
            rep.probes["mpi-restart-vs-uninterrupted"]++;
            if (s.w->text() != uninterrupted)
            {
                rep.fail("C03", "mpi-resumed-differs", key, fmt(
                    "MPI job with %llu ranks stopped after iteration %llu and restarted from the text ends with another checkpoint than the job that never stopped",
                    (unsigned long long) P, (unsigned long long) split));
            }
        }
        return;
    }

    // P = 1 must reproduce the serial integrator's text exactly
    if (P == 1 && p.stop < 0 && split == 0 && p.variant != 9)
    {
        Plan q = p;
        q.P = 0;
        Report scratch;
        Session s1(q, scratch);
        s1.check = false;
        s1.fresh();
        RunCtl c1 = ctl_from_plan(q);
        c1.filename = CHK;
        RunOut const o1 = s1.run(q.calls, c1);
        if (!o1.threw && !o1.killed && s1.w->text() != s.w->text())
        {
            rep.fail("C04", "one-rank-differs-from-serial", key, "mpi run with one rank differs textually from the serial integrator");
        }
        rep.probes["single-rank-vs-serial"]++;
    }

}

Scenario const scen_mpi = {"mpi", gen_mpi, exec_mpi};

}
