// hepsim - supervisor, workers, replay, minimiser, evidence
#include "scen.hpp"

#include <algorithm>
#include <chrono>
#include <cstdio>
#include <cstdlib>
#include <cstring>
#include <fcntl.h>
#include <fstream>
#include <iostream>
#include <set>
#include <sstream>
#include <sys/resource.h>
#include <sys/stat.h>
#include <sys/wait.h>
#include <unistd.h>

using namespace sim;

extern "C" __attribute__((used)) char const* __asan_default_options()
{
    return "exitcode=77:detect_leaks=0:abort_on_error=0:allocator_may_return_null=1";
}

extern "C" __attribute__((used)) char const* __ubsan_default_options()
{
    return "halt_on_error=1:exitcode=77:print_stacktrace=1";
}

namespace
{

struct Share
{
    char const* scn;
    int weight;
};

struct PropSpec
{
    char const* id;
    std::vector<Share> shares;
    u64 quick_runs;
    u64 thorough_runs;
    char const* level;
    char const* rule;
};

std::vector<PropSpec> const& props()
{
    static std::vector<PropSpec> const v = {
        {"C01", {{"lattice", 100}}, 35000, 1400000, "exploration",
            "plans of scenario lattice (PLAIN / VEGAS on uniform, user and adapted grids / multi-channel with rational and adapted weights) driven by a scripted midpoint-lattice engine; non-trivial = VEGAS or multi-channel plan that reached the exactness comparison; distinct = distinct plan shape hashes"},
        {"C02", {{"history", 55}, {"mpi", 10}, {"restart", 10}, {"poison", 10}, {"bins", 15}}, 50000, 2000000, "exploration",
            "runs whose complete call log is checked against every result field; non-trivial = more than one iteration, or zero-valued evaluations, or an injected fault; distinct = distinct plan shape hashes"},
        {"C03", {{"restart", 78}, {"fscrash", 12}, {"mpi", 10}}, 40000, 1600000, "fault_enumeration",
            "per plan every non-empty subset of the s-1 iteration boundaries (all 2^(s-1)-1 for s <= 6, 25 sampled beyond) is executed as interruption set, each interruption either clean or a kill inside the following iteration; non-trivial = plan whose reference run has at least two iterations; distinct = distinct plan shape hashes"},
        {"C04", {{"mpi", 100}}, 10000, 400000, "exploration",
            "shim-MPI runs (1..33 ranks) under seeded arrival order, reduction order and stalls, each iteration compared with the public serial iteration; non-trivial = more than one rank; distinct = distinct plan shape hashes (distinct interleavings reported separately)"},
        {"C05", {{"durable", 55}, {"restart", 25}, {"rollback", 20}}, 60000, 2400000, "exploration",
            "checkpoint objects (from runs, assembled through public constructors with corner values, empty with user state) serialised, destroyed and rebuilt, compared field by field and bit by bit; in run / reload / rollback histories the text of the live object is read back after every operation; non-trivial = a restart happened; distinct = distinct plan shape hashes"},
        {"C06", {{"poison", 85}, {"mpi", 15}}, 24000, 960000, "exploration",
            "paired runs: non-finite values injected at seeded calls vs. the same calls returning zero; non-trivial = at least one injected non-finite evaluation fired; distinct = distinct plan shape hashes"},
        {"C07", {{"grid", 62}, {"history", 14}, {"restart", 12}, {"rollback", 12}}, 18000, 720000, "exploration",
            "VEGAS runs with long refinement histories plus direct probes (u == 1, hand made data); invariants on every grid and point, equal-share bracket against a long double reference; non-trivial = every grid plan; distinct = distinct plan shape hashes"},
        {"C08", {{"weights", 50}, {"history", 18}, {"mpi", 12}, {"restart", 10}, {"rollback", 10}}, 60000, 2400000, "exploration",
            "multi-channel runs with up to 40 refinements plus direct probes of the refinement; probability-vector invariants and reference model; distinct = distinct plan shape hashes"},
        {"C09", {{"select", 70}, {"history", 30}}, 60000, 2400000, "exploration",
            "selector draws forced to 0, largest-below-1, every cumulative boundary and neighbours, mid points, in a seeded order and repeatedly; inside runs (each selection compared with a fresh selector given the same number) and on the selector type directly; under standard engines a boundary placed 64 eps above / below a number the engine really produces; distinct = distinct plan shape hashes"},
        {"C10", {{"usage", 28}, {"history", 42}, {"poison", 18}, {"mpi", 12}}, 60000, 2400000, "exploration",
            "draw counter per call under all engines and faults, stored generator vs. discard, engines with odd ranges against the predictor, under the MPI shim every process must leave the run calls x cost further in its stream; distinct = distinct plan shape hashes"},
        {"C11", {{"bins", 60}, {"restart", 12}, {"mpi", 13}, {"poison", 15}}, 40000, 1600000, "exploration",
            "projector adds logged and re-binned by an independent long double reference (conservation per bin, edges ambiguous within one rounding error), probe coordinates on edges / outside / non-finite; distinct = distinct plan shape hashes"},
        {"C12", {{"protocol", 70}, {"mpi", 30}}, 18000, 720000, "exploration",
            "interleaved history of integrand calls and callback invocations; user callback stop positions; built-in callback with target 0 on degenerate integrands and with targets placed between reference relative errors; distinct = distinct plan shape hashes"},
        {"C15", {{"rollback", 100}}, 50000, 2000000, "exploration",
            "operation histories over run (also with other numbers of calls than the first time) / reload / rollback checked after every operation against the text of a fresh run with exactly the calls the history has left in the checkpoint; distinct = distinct plan shape hashes"},
        {"C16", {{"mpi", 100}}, 10000, 400000, "exploration",
            "engine position intervals of all ranks per iteration (raw outputs incl. discards) under scripted and standard engines, worlds of 1..33 ranks, split worlds, calls below the world size; distinct = distinct plan shape hashes"},
        {"C17", {{"history", 50}, {"poison", 20}, {"select", 15}, {"bins", 15}}, 60000, 2400000, "exploration",
            "per-call protocol state machine inside scripted map and integrand; distinct = distinct plan shape hashes"},
        {"C18", {{"fscrash", 100}}, 25000, 1000000, "fault_enumeration",
            "one traced execution per plan (serial, or under the MPI shim with every file system call a scheduling point), every file system event boundary and byte prefix of every write evaluated as kill point (quick: all prefixes of writes up to 512 bytes, else first/last 64, 4096-byte boundaries and 256 seeded offsets); plus executed sequences of up to four kills and restarts, some restarts in a non-writing mode; plus two integrations side by side on a split world, each writing its own file; distinct = distinct plan shape hashes"},
        {"C19", {{"history", 35}, {"restart", 25}, {"mpi", 25}, {"rollback", 15}}, 10000, 400000, "exploration",
            "bitwise chain of recorded states against the library's own refinement (uninterrupted, resumed, rolled back, MPI, adaptation parameters changed between runs), points recomputed from the recorded state under the scripted engine; distinct = distinct plan shape hashes"},
        {"C20", {{"modes", 100}}, 16000, 640000, "exploration",
            "the same plan under all four callback modes (serial and shim-MPI), with disk faults and failing std::cout; distinct = distinct plan shape hashes"},
    };
    return v;
}

// rare conditions every batch of a property is expected to reach; one that stays at zero means the
// workload or fault mix has to change (reported as a warning and in the evidence, never as a violation)
std::vector<std::string> expected_reach(std::string const& id)
{
    static std::map<std::string, std::vector<std::string>> const m = {
        {"C01", {"adapted-grid", "user-grid", "rational-weights", "adapted-weights", "floored-user-weights", "high-dimensional", "state-through-text", "state-through-text-and-rollback"}},
        {"C02", {"zero-information-iteration", "lazy-densities-skipped", "values-outside-exponent-range"}},
        {"C03", {"fault:clean-interruption", "fault:kill-mid-iteration", "fault:restart-before-first-iteration", "interruption-subsets", "early-stop", "mpi-restart-vs-uninterrupted"}},
        {"C04", {"empty-share", "fault:arrival-reorder", "fault:stall-rank", "single-rank-vs-serial", "split-communicator", "fault:mpi-restart-other-world-size"}},
        {"C05", {"assembled-state", "empty-checkpoint-user-state", "state-from-run", "reload"}},
        {"C06", {"fault:integrand-nonfinite", "volume-run-with-non-finite-evaluations"}},
        {"C07", {"zero-information-iteration", "u-equals-one", "share-checked", "refine-direct", "canonical-zero"}},
        {"C08", {"zero-information-iteration", "floor-hit", "refine-direct"}},
        {"C09", {"canonical-zero", "boundary-values-forced", "selector-lattice", "subnormal-weight-total", "boundary-next-to-an-engine-output"}},
        {"C10", {"power-of-two-range", "fault:integrand-nonfinite", "fault:rng-force"}},
        {"C11", {"bins-checked", "coordinate-on-edge", "coordinate-outside", "checkpoint-copy-assigned-over-another"}},
        {"C12", {"user-stop", "zero-integrand", "constant-integrand", "target-reached", "target-not-reached", "non-monotone-errors", "resumed-with-results", "target-equals-an-error-exactly", "resumed-checkpoint-already-meets-target"}},
        {"C15", {"rollback", "rollback-noop", "rollback-to-zero", "rollback-too-large", "rollback-after-reload", "reload", "continuation-with-other-calls", "last-iteration-redone-by-hand"}},
        {"C16", {"empty-share", "split-communicator"}},
        {"C17", {"lazy-densities-skipped", "canonical-zero"}},
        {"C18", {"crash-states", "fault:short-write", "fault:eintr", "fault:open-fails", "fault:kill-at-fs-event", "fault:kill-at-call", "fault:descheduled-before-file-system-call", "restart-in-a-non-writing-mode", "two-integrations-in-one-process"}},
        {"C19", {"fault:clean-interruption", "fault:restart-before-first-iteration", "empty-share", "adaptation-parameters-changed-between-runs"}},
        {"C20", {"fault:short-write", "fault:io-error", "fault:cout-fail", "summary-many-channels", "user-defined-checkpoint-class"}},
    };
    auto it = m.find(id);
    return it == m.end() ? std::vector<std::string>() : it->second;
}

PropSpec const* find_prop(std::string const& id)
{
    for (auto const& p : props())
    {
        if (id == p.id) return &p;
    }
    return nullptr;
}

u64 name_hash(char const* s)
{
    Fnv h;
    h.str(std::string(s));
    return h.h;
}

double now()
{
    using namespace std::chrono;
    return duration<double>(steady_clock::now().time_since_epoch()).count();
}

Plan plan_for(PropSpec const& ps, int tier, u64 seed, u64 idx)
{
    Rng r(mix2(seed, idx) ^ name_hash(ps.id));
    int total = 0;
    for (auto const& s : ps.shares) total += s.weight;
    int pick = static_cast<int>(r.below(total));
    char const* scn = ps.shares[0].scn;
    for (auto const& s : ps.shares)
    {
        if (pick < s.weight)
        {
            scn = s.scn;
            break;
        }
        pick -= s.weight;
    }
    Scenario const* sc = find_scenario(scn);
    Plan p = sc->gen(r, tier, ps.id);
    p.scn = scn;
    p.seed = mix2(seed, idx);
    return p;
}

void execute(Plan const& p, Report& rep)
{
    Scenario const* sc = find_scenario(p.scn);
    if (sc == nullptr)
    {
        rep.fail("XX", "unknown-scenario", p.scn, p.scn);
        return;
    }
    rep.hash.str(p.to_text());
    sc->exec(p, rep);
}

std::string one_line(std::string s)
{
    for (auto& c : s)
    {
        if (c == '\n' || c == '\t' || c == '\r') c = ' ';
    }
    return s;
}

std::string json_escape(std::string const& s)
{
    std::string r;
    char buf[8];
    for (unsigned char c : s)
    {
        if (c == '"' || c == '\\')
        {
            r += '\\';
            r += static_cast<char>(c);
        }
        else if (c < 0x20 || c > 0x7e)
        {
            std::snprintf(buf, sizeof buf, "\\u%04x", c);
            r += buf;
        }
        else
        {
            r += static_cast<char>(c);
        }
    }
    return r;
}

std::string slurp(std::string const& path)
{
    std::ifstream in(path, std::ios::binary);
    std::ostringstream o;
    o << in.rdbuf();
    return o.str();
}

void spit(std::string const& path, std::string const& text)
{
    std::ofstream out(path, std::ios::binary | std::ios::trunc);
    out << text;
}

std::string verif_dir()
{
    char const* e = std::getenv("HEPSIM_VERIF");
    return e ? e : "/verif";
}

// ------------------------------------------------------------------------------------------------
// worker

int worker_main(std::string const& prop, int tier, u64 seed, u64 start, u64 stride, u64 count,
    std::string const& outpath, double deadline, bool san)
{
    PropSpec const* ps = find_prop(prop);
    if (ps == nullptr) return 3;
    if (!san)
    {
        // a garbage size read from a damaged file must end in std::bad_alloc, not in the OOM killer
        // (the sanitizer flavour needs its huge address space)
        struct rlimit lim;
        lim.rlim_cur = lim.rlim_max = 24ULL << 30;
        setrlimit(RLIMIT_AS, &lim);
    }
    FILE* out = std::fopen(outpath.c_str(), "a");
    if (out == nullptr) return 3;
    std::string const inflight = outpath + ".inflight";

    for (u64 idx = start; idx < count; idx += stride)
    {
        if (now() > deadline)
        {
            std::fprintf(out, "T %llu\n", (unsigned long long) idx);
            break;
        }

        Plan const p = plan_for(*ps, tier, seed, idx);
        if (san && p.total_calls() > (1ULL << 22))
        {
            // volume runs (2^24 .. 2^32 calls) are for the fast flavour: under ASan + UBSan they would
            // take the whole batch (and end in the watchdog)
            continue;
        }
        spit(inflight, p.to_text());
        alarm(900);   // watchdog: a run that does not come back is a result (SIGALRM ends the worker)
        std::fprintf(out, "B %llu\n", (unsigned long long) idx);
        std::fflush(out);

        Report rep;
        execute(p, rep);

        std::fprintf(out, "E %llu %llx %d %llx %llu %llu %llu %llu %llu %llu %s\n", (unsigned long long) idx,
            (unsigned long long) rep.hash.h, rep.nontrivial ? 1 : 0, (unsigned long long) p.shape_hash(),
            (unsigned long long) rep.calls, (unsigned long long) rep.collectives, (unsigned long long) rep.fs_events,
            (unsigned long long) rep.restarts, (unsigned long long) rep.sched_steps, (unsigned long long) rep.runs,
            p.scn.c_str());
        for (auto const& f : rep.faults)
        {
            if (f.second != 0) std::fprintf(out, "X %s\t%llu\n", f.first.c_str(), (unsigned long long) f.second);
        }
        for (auto const& f : rep.probes)
        {
            if (f.second != 0) std::fprintf(out, "P %s\t%llu\n", f.first.c_str(), (unsigned long long) f.second);
        }
        for (u64 h : rep.interleavings) std::fprintf(out, "I %llx\n", (unsigned long long) h);
        for (auto const& f : rep.findings)
        {
            std::fprintf(out, "F %llu\t%s\t%s\t%s\t%s\n", (unsigned long long) idx, f.prop.c_str(), f.tag.c_str(),
                one_line(f.key).c_str(), one_line(f.detail).c_str());
        }
        std::fflush(out);
        alarm(0);
    }

    std::fprintf(out, "D\n");
    std::fclose(out);
    std::remove(inflight.c_str());
    return 0;
}

// ------------------------------------------------------------------------------------------------
// known findings

struct Known
{
    std::string prop, tag, key, text;
    bool seen = false;
};

std::vector<Known> load_known()
{
    std::vector<Known> v;
    std::ifstream in(verif_dir() + "/known_findings.txt");
    std::string line;
    while (std::getline(in, line))
    {
        if (line.compare(0, 8, "finding:") != 0) continue;
        // finding: property=C10 tag=usage-mismatch key=<key> :: text
        Known k;
        auto get = [&](char const* name) {
            std::string const pat = std::string(name) + "=";
            auto a = line.find(pat);
            if (a == std::string::npos) return std::string();
            a += pat.size();
            auto b = std::string::npos;
            if (std::strcmp(name, "key") == 0) b = line.find(" :: ", a);
            else b = line.find(' ', a);
            return line.substr(a, b == std::string::npos ? b : b - a);
        };
        k.prop = get("property");
        k.tag = get("tag");
        k.key = get("key");
        auto t = line.find(" :: ");
        k.text = (t == std::string::npos) ? std::string() : line.substr(t + 4);
        v.push_back(k);
    }
    return v;
}

// ------------------------------------------------------------------------------------------------
// replay, minimiser

bool has_finding(Report const& rep, std::string const& prop, std::string const& tag)
{
    for (auto const& f : rep.findings)
    {
        if (f.prop == prop && f.tag == tag) return true;
    }
    return false;
}

int run_child(std::vector<std::string> const& args, std::string* output)
{
    int fds[2];
    if (pipe(fds) != 0) return -1;
    pid_t const pid = fork();
    if (pid == 0)
    {
        close(fds[0]);
        dup2(fds[1], 1);
        dup2(fds[1], 2);
        close(fds[1]);
        std::vector<char*> argv;
        for (auto const& a : args) argv.push_back(const_cast<char*>(a.c_str()));
        argv.push_back(nullptr);
        execv(argv[0], argv.data());
        _exit(127);
    }
    close(fds[1]);
    char buf[4096];
    ssize_t n;
    while ((n = read(fds[0], buf, sizeof buf)) > 0)
    {
        if (output != nullptr) output->append(buf, static_cast<std::size_t>(n));
    }
    close(fds[0]);
    int status = 0;
    waitpid(pid, &status, 0);
    if (WIFEXITED(status)) return WEXITSTATUS(status);
    if (WIFSIGNALED(status)) return 128 + WTERMSIG(status);
    return -1;
}

// runs a plan in a fresh process; returns the exit code of `hepsim replay` and its output
int replay_in_child(std::string const& self, std::string const& file, std::string const& prop,
    std::string const& tag, std::string* output)
{
    return run_child({self, "replay", file, "--expect", prop + ":" + tag}, output);
}

struct ChildOut
{
    bool crashed = false;
    bool hit = false;
    bool same = true;     // repeated executions agreed on hash and verdict
    u64 hash = 0;
};

// executes a plan (several times) in a forked child: a plan that aborts the process (assert of the
// library, _GLIBCXX_ASSERTIONS) must not take the supervisor with it
ChildOut exec_forked(Plan const& p, std::string const& prop, std::string const& tag, int repeat)
{
    ChildOut r;
    int fds[2];
    if (pipe(fds) != 0)
    {
        r.crashed = true;
        return r;
    }
    std::fflush(stdout);
    pid_t const pid = fork();
    if (pid == 0)
    {
        close(fds[0]);
        int const devnull = open("/dev/null", O_WRONLY);
        dup2(devnull, 1);
        dup2(devnull, 2);
        u64 out[3] = {0, 0, 1};
        alarm(p.total_calls() > (1ULL << 22) ? 3600 : 120);
        for (int i = 0; i != repeat; ++i)
        {
            Report rep;
            execute(p, rep);
            bool const hit = has_finding(rep, prop, tag);
            if (i == 0)
            {
                out[0] = rep.hash.h;
                out[1] = hit;
            }
            else if (out[0] != rep.hash.h || out[1] != static_cast<u64>(hit))
            {
                out[2] = 0;
            }
        }
        ssize_t const w = write(fds[1], out, sizeof out);
        (void) w;
        _exit(0);
    }
    close(fds[1]);
    u64 in[3] = {0, 0, 0};
    ssize_t const n = read(fds[0], in, sizeof in);
    close(fds[0]);
    int status = 0;
    waitpid(pid, &status, 0);
    if (n != static_cast<ssize_t>(sizeof in) || !WIFEXITED(status) || WEXITSTATUS(status) != 0)
    {
        r.crashed = true;
        return r;
    }
    r.hash = in[0];
    r.hit = in[1] != 0;
    r.same = in[2] != 0;
    return r;
}

bool crash_code(int rc) { return rc == 77 || rc >= 128; }

bool fails_same(std::string const& self, Plan const& p, std::string const& prop, std::string const& tag,
    bool crash_class, std::string const& scratch)
{
    if (tag == "sanitizer-report")
    {
        // needs the sanitizer flavour: exec it
        spit(scratch, p.to_text());
        std::string out;
        return crash_code(replay_in_child(self, scratch, prop, tag, &out));
    }
    ChildOut const c = exec_forked(p, prop, tag, 1);
    return crash_class ? c.crashed : (!c.crashed && c.hit);
}

Plan minimise(std::string const& self, Plan p, std::string const& prop, std::string const& tag, bool crash_class,
    std::string const& scratch, int& attempts)
{
    // a volume run takes seconds to minutes per execution: reported as it is
    if (p.total_calls() > (1ULL << 22)) return p;

    double const t0 = now();
    bool progress = true;
    attempts = 0;

    auto try_plan = [&](Plan const& q) {
        if (q.to_text() == p.to_text()) return false;
        if (attempts > 400 || now() - t0 > (crash_class ? 60 : 30)) return false;
        ++attempts;
        if (fails_same(self, q, prop, tag, crash_class, scratch))
        {
            p = q;
            return true;
        }
        return false;
    };

    while (progress)
    {
        progress = false;

        // fewer iterations
        while (p.calls.size() > 1)
        {
            Plan q = p;
            q.calls.pop_back();
            if (!try_plan(q)) break;
            progress = true;
        }
        while (p.calls.size() > 1)
        {
            Plan q = p;
            q.calls.erase(q.calls.begin());
            if (!try_plan(q)) break;
            progress = true;
        }
        // fewer operations
        for (std::size_t i = 0; i < p.ops.size();)
        {
            Plan q = p;
            q.ops.erase(q.ops.begin() + i);
            if (try_plan(q)) progress = true;
            else ++i;
        }
        // fewer faults
        for (std::size_t i = 0; i < p.faults.size();)
        {
            Plan q = p;
            q.faults.erase(q.faults.begin() + i);
            if (try_plan(q)) progress = true;
            else ++i;
        }
        // fewer calls
        for (std::size_t i = 0; i != p.calls.size(); ++i)
        {
            for (u64 target : {u64(2), u64(3), u64(8), p.calls[i] / 2})
            {
                if (target >= p.calls[i] || target < 2) continue;
                Plan q = p;
                q.calls[i] = target;
                if (try_plan(q))
                {
                    progress = true;
                    break;
                }
            }
        }
        // smaller world
        auto shrink_u = [&](u64 Plan::*field, std::vector<u64> const& cands, u64 lowest) {
            for (u64 c : cands)
            {
                if (c >= p.*field || c < lowest) continue;
                Plan q = p;
                q.*field = c;
                if (try_plan(q))
                {
                    progress = true;
                    return;
                }
            }
        };
        shrink_u(&Plan::dims, {1, 2}, 1);
        shrink_u(&Plan::bins, {2, 3, 4, 8, p.bins / 2}, 2);
        shrink_u(&Plan::chan, {1, 2, 3, 4, p.chan / 2}, 1);
        shrink_u(&Plan::P, {1, 2, 3, p.P / 2}, 1);
        // simpler parts
        auto simpler = [&](void (*edit)(Plan&)) {
            Plan q = p;
            edit(q);
            if (try_plan(q)) progress = true;
        };
        simpler([](Plan& q) { q.dists.clear(); q.acc = 0; });
        if (p.dists.size() > 1)
        {
            for (std::size_t i = 0; i < p.dists.size();)
            {
                Plan q = p;
                q.dists.erase(q.dists.begin() + i);
                if (q.dists.empty()) break;
                if (try_plan(q)) progress = true;
                else ++i;
            }
        }
        simpler([](Plan& q) { for (auto& d : q.dists) d.name = "d"; });
        simpler([](Plan& q) { for (auto& d : q.dists) { d.two_d = 0; d.by = 1; } });
        simpler([](Plan& q) { q.grid = 0; });
        simpler([](Plan& q) { q.wts = 0; });
        simpler([](Plan& q) { q.minw = 0; });
        simpler([](Plan& q) { q.alpha = 1.5L; });
        simpler([](Plan& q) { q.beta = 0.25L; });
        simpler([](Plan& q) { q.fk = F_POLY; });
        simpler([](Plan& q) { q.askw = 0; });
        simpler([](Plan& q) { q.jexp = 0; });
        simpler([](Plan& q) { q.fmag = 0; });
        simpler([](Plan& q) { q.nt = NT_D; });
        simpler([](Plan& q) { q.eng = E_SCRIPT64; });
        simpler([](Plan& q) { q.eng = E_MT19937; });
        simpler([](Plan& q) { q.rorder = 0; });
        simpler([](Plan& q) { q.mode = 0; });
    }

    return p;
}

// ------------------------------------------------------------------------------------------------
// supervisor

struct Agg
{
    u64 evaluations = 0;
    std::set<u64> distinct;
    std::map<std::string, u64> faults, probes, per_scenario;
    std::set<u64> interleavings;
    u64 calls = 0, collectives = 0, fs_events = 0, restarts = 0, steps = 0, runs = 0;
    struct F
    {
        u64 idx;
        std::string prop, tag, key, detail;
        bool crash = false;
    };
    std::vector<F> findings;
    std::vector<u64> crashed;   // run indices whose worker died
    std::map<u64, u64> hashes;  // idx -> event log hash
};

void parse_worker_file(std::string const& path, Agg& a, u64* last_begun, bool* done)
{
    std::ifstream in(path);
    std::string line;
    *done = false;
    bool open_run = false;
    while (std::getline(in, line))
    {
        if (line.empty()) continue;
        char const t = line[0];
        if (t == 'B')
        {
            *last_begun = std::strtoull(line.c_str() + 2, nullptr, 10);
            open_run = true;
        }
        else if (t == 'E')
        {
            unsigned long long idx, hash, shape, calls, colls, fsev, rest, steps, runs;
            int nontriv;
            char scn[64] = {0};
            if (std::sscanf(line.c_str() + 2, "%llu %llx %d %llx %llu %llu %llu %llu %llu %llu %63s", &idx, &hash, &nontriv,
                    &shape, &calls, &colls, &fsev, &rest, &steps, &runs, scn) == 11)
            {
                ++a.evaluations;
                if (nontriv) a.distinct.insert(shape);
                a.calls += calls;
                a.collectives += colls;
                a.fs_events += fsev;
                a.restarts += rest;
                a.steps += steps;
                a.runs += runs;
                a.per_scenario[scn]++;
                a.hashes[idx] = hash;
            }
            open_run = false;
        }
        else if (t == 'X' || t == 'P')
        {
            auto tab = line.find('\t');
            if (tab != std::string::npos)
            {
                std::string const name = line.substr(2, tab - 2);
                u64 const n = std::strtoull(line.c_str() + tab + 1, nullptr, 10);
                (t == 'X' ? a.faults : a.probes)[name] += n;
            }
        }
        else if (t == 'I')
        {
            a.interleavings.insert(std::strtoull(line.c_str() + 2, nullptr, 16));
        }
        else if (t == 'F')
        {
            std::vector<std::string> f;
            std::string cur;
            for (std::size_t i = 2; i <= line.size(); ++i)
            {
                if (i == line.size() || line[i] == '\t')
                {
                    f.push_back(cur);
                    cur.clear();
                }
                else
                {
                    cur += line[i];
                }
            }
            if (f.size() >= 5)
            {
                Agg::F x;
                x.idx = std::strtoull(f[0].c_str(), nullptr, 10);
                x.prop = f[1];
                x.tag = f[2];
                x.key = f[3];
                x.detail = f[4];
                a.findings.push_back(x);
            }
        }
        else if (t == 'D')
        {
            *done = true;
        }
        else if (t == 'T')
        {
            *done = true;
        }
    }
    (void) open_run;
}

struct Batch
{
    std::string binary;
    u64 first = 0, stride = 1, count = 0;   // indices first, first + stride, ... < count
    bool san = false;
};

int run_main(std::string const& self, std::string const& prop, int tier, u64 seed, int jobs, u64 override_runs,
    double cap_s)
{
    PropSpec const* ps = find_prop(prop);
    if (ps == nullptr)
    {
        std::fprintf(stderr, "unknown property %s\n", prop.c_str());
        return 3;
    }

    double const t0 = now();
    u64 const n = override_runs ? override_runs : (tier ? ps->thorough_runs : ps->quick_runs);
    std::string const vd = verif_dir();
    std::string const work = vd + "/.work/" + prop + "-" + std::to_string(getpid());
    mkdir((vd + "/.work").c_str(), 0755);
    mkdir(work.c_str(), 0755);
    mkdir((vd + "/replays").c_str(), 0755);
    mkdir((vd + "/evidence").c_str(), 0755);

    // the sanitizer flavour runs a slice of the indices (every 16th), the fast flavour the rest
    std::string const san_bin = self + "-san";
    bool const have_san = access(san_bin.c_str(), X_OK) == 0 && std::getenv("HEPSIM_NO_SAN") == nullptr;
    double const deadline = t0 + cap_s;

    struct W
    {
        pid_t pid = -1;
        std::string out;
        std::string binary;
        u64 start = 0, stride = 0, count = 0;
        bool san = false;
        bool finished = false;
    };

    std::vector<W> ws;
    int const san_workers = have_san ? std::max(1, jobs / 3) : 0;
    int const fast_workers = std::max(1, jobs - san_workers);

    // index i is a sanitizer index iff i % 16 == 15 (and a sanitizer binary exists)
    auto spawn = [&](W& w) {
        pid_t const pid = fork();
        if (pid == 0)
        {
            std::string const a_start = std::to_string(w.start), a_stride = std::to_string(w.stride),
                              a_count = std::to_string(w.count), a_seed = std::to_string(seed), a_tier = std::to_string(tier),
                              a_deadline = std::to_string(deadline);
            char const* argv[] = {w.binary.c_str(), "worker", prop.c_str(), a_tier.c_str(), a_seed.c_str(),
                a_start.c_str(), a_stride.c_str(), a_count.c_str(), w.out.c_str(), a_deadline.c_str(),
                w.san ? "san" : "fast", nullptr};
            int const devnull = open("/dev/null", O_WRONLY);
            if (devnull >= 0)
            {
                dup2(devnull, 1);
            }
            std::string const errf = w.out + ".stderr";
            int const ef = open(errf.c_str(), O_CREAT | O_WRONLY | O_APPEND, 0644);
            if (ef >= 0) dup2(ef, 2);
            execv(w.binary.c_str(), const_cast<char* const*>(argv));
            _exit(127);
        }
        w.pid = pid;
    };

    for (int j = 0; j != fast_workers; ++j)
    {
        W w;
        w.binary = self;
        w.out = work + "/fast-" + std::to_string(j);
        w.start = static_cast<u64>(j);
        w.stride = static_cast<u64>(fast_workers);
        w.count = n;
        ws.push_back(w);
    }
    for (int j = 0; j != san_workers; ++j)
    {
        W w;
        w.binary = san_bin;
        w.san = true;
        w.out = work + "/san-" + std::to_string(j);
        w.start = static_cast<u64>(j);
        w.stride = static_cast<u64>(san_workers);
        w.count = std::max<u64>(16, n / 32);   // the sanitizer flavour re-runs the first 1/32 of the indices
        ws.push_back(w);
    }
    for (auto& w : ws) spawn(w);

    Agg agg;
    std::vector<std::pair<u64, std::string>> crash_plans;   // plans of runs that killed their worker
    int live = static_cast<int>(ws.size());

    while (live != 0)
    {
        int status = 0;
        pid_t const pid = wait(&status);
        if (pid < 0) break;
        for (auto& w : ws)
        {
            if (w.pid != pid) continue;
            bool const clean = WIFEXITED(status) && WEXITSTATUS(status) == 0;
            if (clean)
            {
                w.finished = true;
                --live;
            }
            else
            {
                // the worker died: the plan in flight is the result; continue after it
                Agg tmp;
                u64 last = ~0ULL;
                bool done = false;
                parse_worker_file(w.out, tmp, &last, &done);
                std::string const plan = slurp(w.out + ".inflight");
                std::string const err = slurp(w.out + ".stderr");
                if (last != ~0ULL && !plan.empty())
                {
                    int const code = WIFEXITED(status) ? WEXITSTATUS(status) : 128 + WTERMSIG(status);
                    crash_plans.emplace_back(last, plan);
                    std::string what = (code == 77) ? "sanitizer report" : fmt("worker died with status %d", code);
                    // first interesting line of stderr
                    std::istringstream es(err);
                    std::string l, pick;
                    while (std::getline(es, l))
                    {
                        if (l.find("ERROR") != std::string::npos || l.find("runtime error") != std::string::npos ||
                            l.find("Assertion") != std::string::npos || l.find("assert") != std::string::npos)
                        {
                            pick = l;
                        }
                        if (!pick.empty()) break;
                    }
                    FILE* f = std::fopen(w.out.c_str(), "a");
                    if (f != nullptr)
                    {
                        std::fprintf(f, "F %llu\t%s\t%s\t%s\t%s\n", (unsigned long long) last, prop.c_str(),
                            code == 77 ? "sanitizer-report" : "crash", "crash", one_line(what + ": " + pick).c_str());
                        std::fclose(f);
                    }
                    std::remove((w.out + ".stderr").c_str());
                    // worker index sequence: w.start + k * stride (fast: skip sanitizer indices inside)
                    u64 const next = last + w.stride;
                    if (next < w.count && now() < deadline)
                    {
                        w.start = next;
                        spawn(w);
                    }
                    else
                    {
                        w.finished = true;
                        --live;
                    }
                }
                else
                {
                    w.finished = true;
                    --live;
                }
            }
        }
    }

    for (auto const& w : ws)
    {
        u64 last = ~0ULL;
        bool done = false;
        parse_worker_file(w.out, agg, &last, &done);
    }

    // sanitizer workers and fast workers cover the same index space: both flavours run every index
    // they are given; evaluations counts executions
    double const wall = now() - t0;

    // ---- violations of this property
    std::vector<Known> known = load_known();
    std::map<std::string, Agg::F> firsts;   // tag -> first finding (lowest index)
    for (auto const& f : agg.findings)
    {
        if (f.prop != prop) continue;
        std::string const id = f.tag + "\t" + f.key;
        auto it = firsts.find(id);
        if (it == firsts.end() || f.idx < it->second.idx) firsts[id] = f;
    }

    int violations = 0;
    int machinery = 0;
    bool reported_leak = false;
    std::vector<std::string> lines;
    std::vector<std::string> known_lines;

    // candidates per oracle tag: the first finding of every (tag, key) that is not a known finding, in
    // run order. The first candidate that passes the gates is reported; one violation per tag.
    std::map<std::string, std::vector<Agg::F>> per_tag;

    for (auto const& pr : firsts)
    {
        Agg::F const& f = pr.second;
        bool is_known = false;
        for (auto& k : known)
        {
            if (k.prop == f.prop && k.tag == f.tag && k.key == f.key)
            {
                is_known = true;
                if (!k.seen)
                {
                    k.seen = true;
                    known_lines.push_back(fmt("KNOWN-FINDING: property=%s %s [%s / %s]", prop.c_str(), k.text.c_str(),
                        f.tag.c_str(), f.key.c_str()));
                }
            }
        }
        if (is_known) continue;
        per_tag[f.tag].push_back(f);
    }

    // more candidates: later runs with the same (tag, key); a finding that depends on what the worker
    // ran before (state that a mutated library keeps in the process) does not replay, another one may
    for (auto const& f : agg.findings)
    {
        if (f.prop != prop) continue;
        auto it = per_tag.find(f.tag);
        if (it == per_tag.end()) continue;
        bool dup = false, key_ok = false;
        for (auto const& g : it->second)
        {
            if (g.idx == f.idx) dup = true;
            if (g.key == f.key) key_ok = true;
        }
        if (!dup && key_ok && it->second.size() < 6) it->second.push_back(f);
    }

    for (auto& pt : per_tag)
    {
        std::sort(pt.second.begin(), pt.second.end(), [](Agg::F const& a, Agg::F const& b) { return a.idx < b.idx; });
        if (pt.second.size() > 4) pt.second.resize(4);

        bool reported = false;
        std::vector<std::string> mach;

        for (auto const& f : pt.second)
        {
        if (reported) break;

        // the plan of this run
        Plan p;
        bool const crash = (f.tag == "crash" || f.tag == "sanitizer-report");
        if (crash)
        {
            std::string err;
            bool found = false;
            for (auto const& cp : crash_plans)
            {
                if (cp.first == f.idx && Plan::from_text(cp.second, p, err)) found = true;
            }
            if (!found) p = plan_for(*ps, tier, seed, f.idx);
        }
        else
        {
            p = plan_for(*ps, tier, seed, f.idx);
        }

        std::string const scratch = work + "/min.plan";
        std::string const binary = (f.tag == "sanitizer-report" && have_san) ? san_bin : self;

        // gate 1: the same plan twice more (in one forked process), same hash and same verdict
        if (!crash)
        {
            ChildOut const c = exec_forked(p, prop, f.tag, 2);
            if (c.crashed || !c.same || !c.hit)
            {
                mach.push_back(fmt("MACHINERY: property=%s tag=%s run %llu does not reproduce (crashed=%d same=%d hit=%d)",
                    prop.c_str(), f.tag.c_str(), (unsigned long long) f.idx, c.crashed, c.same, c.hit));
                continue;
            }
        }

        // gate 2: minimise while the same oracle tag of the same property keeps failing
        int attempts = 0;
        Plan const small = minimise(binary, p, prop, f.tag, crash, scratch, attempts);

        // gate 3: replay of the minimised plan in a fresh process
        std::string const file = fmt("%s/replays/%s-%s-%llu.plan", vd.c_str(), prop.c_str(), f.tag.c_str(),
            (unsigned long long) seed);
        spit(file, small.to_text() + fmt("# property=%s tag=%s key=%s\n# %s\n# original seed=%llu run=%llu minimised in %d re-runs\n",
            prop.c_str(), f.tag.c_str(), f.key.c_str(), f.detail.c_str(), (unsigned long long) seed,
            (unsigned long long) f.idx, attempts));
        std::string out;
        int const rc = replay_in_child(binary, file, prop, f.tag, &out);
        if (crash ? !crash_code(rc) : rc != 1)
        {
            mach.push_back(fmt("MACHINERY: property=%s tag=%s replay of %s in a fresh process gave exit %d\n%s\noriginal finding (run %llu): %s", prop.c_str(),
                f.tag.c_str(), file.c_str(), rc, out.c_str(), (unsigned long long) f.idx, f.detail.c_str()));
            std::remove(file.c_str());
            continue;
        }

        reported = true;
        ++violations;
        lines.push_back(fmt("VIOLATION property=%s replay=%s", prop.c_str(), file.c_str()));
        lines.push_back(fmt("  oracle=%s key=%s run=%llu scenario=%s minimised-in=%d", f.tag.c_str(), f.key.c_str(),
            (unsigned long long) f.idx, p.scn.c_str(), attempts));
        lines.push_back("  " + f.detail);
        }

        // findings of this tag that did not replay: a machinery failure if none of the candidates did,
        // a note otherwise (the reported one stands on its own replay)
        for (auto const& m : mach) std::printf("%s%s\n", reported ? "NOTE (another run with the same oracle tag replays): " : "", m.c_str());
        if (!reported) ++machinery;
    }

    // ---- fresh-process cross-check: a worker executes thousands of plans in one process. For a few
    // of them per worker the event log hash is compared with the hash the same plan gives in a process
    // that has executed nothing before it. (The harness itself carries nothing from plan to plan:
    // `hepsim selftest` compares hashes under different predecessor histories.)
    u64 crosschecks = 0, cross_mismatch = 0;
    for (auto const& w : ws)
    {
        if (w.san || violations != 0) continue;
        Agg mine;
        u64 last = ~0ULL;
        bool done = false;
        parse_worker_file(w.out, mine, &last, &done);
        std::vector<std::pair<u64, u64>> seq;   // (index, hash) of the last incarnation of this worker, in order
        for (auto const& h : mine.hashes) if (h.first >= w.start) seq.push_back(h);
        if (seq.size() < 2) continue;
        std::set<std::size_t> picks = {std::min<std::size_t>(seq.size() - 1, 300), std::min<std::size_t>(seq.size() - 1, 1500)};
        for (std::size_t k : picks)
        {
            bool is_crash = false;
            for (auto const& cp : crash_plans) is_crash = is_crash || cp.first == seq[k].first;
            if (is_crash) continue;
            Plan const p = plan_for(*ps, tier, seed, seq[k].first);
            ChildOut const c = exec_forked(p, prop, "", 1);
            if (c.crashed) continue;
            ++crosschecks;
            if (c.hash == seq[k].second) continue;
            ++cross_mismatch;

            bool is_known = false;
            for (auto& kf : known)
            {
                if (kf.prop == prop && kf.tag == "depends-on-earlier-runs" && kf.key == p.scn)
                {
                    is_known = true;
                    if (!kf.seen)
                    {
                        kf.seen = true;
                        known_lines.push_back(fmt("KNOWN-FINDING: property=%s %s [depends-on-earlier-runs / %s]", prop.c_str(),
                            kf.text.c_str(), p.scn.c_str()));
                    }
                }
            }
            if (is_known || reported_leak) continue;

            auto write_seq = [&](std::string const& path, std::vector<u64> const& idxs) {
                std::string t = fmt("hepsim-sequence 1\nprop=%s\ntier=%d\nseed=%llu\nindices=", prop.c_str(), tier,
                    (unsigned long long) seed);
                for (std::size_t i = 0; i != idxs.size(); ++i) t += fmt(i ? ",%llu" : "%llu", (unsigned long long) idxs[i]);
                t += fmt("\n# the last plan gives another event log than in a process of its own: state carried over between integrations\n");
                spit(path, t);
            };

            std::string const file = fmt("%s/replays/%s-depends-on-earlier-runs-%llu.seq", vd.c_str(), prop.c_str(),
                (unsigned long long) seed);
            std::vector<u64> idxs;
            for (std::size_t i = 0; i <= k; ++i) idxs.push_back(seq[i].first);
            write_seq(file, idxs);
            std::string out;
            int rc = run_child({self, "replay", file}, &out);
            if (rc != 1)
            {
                std::printf("MACHINERY: property=%s run %llu gave hash %llx in its worker and %llx in a fresh process, and the worker's sequence does not reproduce that (exit %d)\n%s\n",
                    prop.c_str(), (unsigned long long) seq[k].first, (unsigned long long) seq[k].second,
                    (unsigned long long) c.hash, rc, out.c_str());
                std::remove(file.c_str());
                ++machinery;
                continue;
            }
            // minimise: one predecessor is often enough
            int attempts = 1;
            std::string const scratch_seq = work + "/min.seq";
            for (std::size_t back = 1; back <= 48 && back <= k; ++back)
            {
                write_seq(scratch_seq, {seq[k - back].first, seq[k].first});
                ++attempts;
                std::string o2;
                if (run_child({self, "replay", scratch_seq}, &o2) == 1)
                {
                    write_seq(file, {seq[k - back].first, seq[k].first});
                    idxs = {seq[k - back].first, seq[k].first};
                    break;
                }
            }
            // ... or a short tail of the sequence
            if (idxs.size() > 2)
            {
                for (std::size_t len = 2; len < k; len *= 2)
                {
                    std::vector<u64> tail;
                    for (std::size_t i = k - len; i <= k; ++i) tail.push_back(seq[i].first);
                    write_seq(scratch_seq, tail);
                    ++attempts;
                    std::string o2;
                    if (run_child({self, "replay", scratch_seq}, &o2) == 1)
                    {
                        write_seq(file, tail);
                        idxs = tail;
                        break;
                    }
                }
            }
            std::remove(scratch_seq.c_str());
            reported_leak = true;
            ++violations;
            lines.push_back(fmt("VIOLATION property=%s replay=%s", prop.c_str(), file.c_str()));
            lines.push_back(fmt("  oracle=depends-on-earlier-runs key=%s run=%llu scenario=%s minimised-in=%d", p.scn.c_str(),
                (unsigned long long) seq[k].first, p.scn.c_str(), attempts));
            lines.push_back(fmt("  run %llu gives another event log after %zu other plan(s) in the same process than in a process of its own",
                (unsigned long long) seq[k].first, idxs.size() - 1));
        }
    }

    // ---- evidence
    {
        std::ostringstream j;
        j << "{\n";
        j << " \"property_id\": \"" << prop << "\",\n";
        j << " \"tier\": \"" << (tier ? "thorough" : "quick") << "\",\n";
        j << " \"seed\": " << seed << ",\n";
        j << " \"level\": \"" << ps->level << "\",\n";
        j << " \"wall_s\": " << wall << ",\n";
        j << " \"violations\": " << violations << ",\n";
        j << " \"coverage\": {\n";
        j << "  \"evaluations\": " << agg.evaluations << ",\n";
        j << "  \"distinct_nontrivial\": " << agg.distinct.size() << ",\n";
        j << "  \"rule\": \"" << json_escape(ps->rule) << "\",\n";
        j << "  \"exhaustive\": false,\n";
        j << "  \"samples\": [";
        for (u64 i = 0; i != 3 && i < n; ++i)
        {
            Plan const p = plan_for(*ps, tier, seed, i);
            j << (i ? ", " : "") << "\"" << json_escape(p.to_text()) << "\"";
        }
        j << "],\n";
        j << "  \"planned_runs\": " << n << ",\n";
        j << "  \"runs_per_hour\": " << static_cast<u64>(agg.evaluations / std::max(wall, 1e-3) * 3600.0) << ",\n";
        j << "  \"integrator_invocations\": " << agg.runs << ",\n";
        j << "  \"simulated_steps\": {\"integrand_calls\": " << agg.calls << ", \"collectives\": " << agg.collectives
          << ", \"fs_events\": " << agg.fs_events << ", \"restarts\": " << agg.restarts << ", \"scheduler_steps\": "
          << agg.steps << "},\n";
        j << "  \"simulated_time\": \"hep-mc has no clock; simulated time is reported as simulated steps\",\n";
        j << "  \"faults_fired\": {";
        bool first = true;
        for (auto const& f : agg.faults)
        {
            j << (first ? "" : ", ") << "\"" << json_escape(f.first) << "\": " << f.second;
            first = false;
        }
        j << "},\n";
        j << "  \"probes\": {";
        first = true;
        for (auto const& f : agg.probes)
        {
            j << (first ? "" : ", ") << "\"" << json_escape(f.first) << "\": " << f.second;
            first = false;
        }
        j << "},\n";
        j << "  \"expected_reach_at_zero\": [";
        {
            bool firstz = true;
            for (auto const& name : expected_reach(prop))
            {
                bool const is_fault = name.compare(0, 6, "fault:") == 0;
                auto const& mp = is_fault ? agg.faults : agg.probes;
                auto it = mp.find(is_fault ? name.substr(6) : name);
                if (it == mp.end() || it->second == 0)
                {
                    j << (firstz ? "" : ", ") << "\"" << json_escape(name) << "\"";
                    firstz = false;
                    std::printf("hepsim: WARNING property=%s never reached '%s' in this batch\n", prop.c_str(), name.c_str());
                }
            }
        }
        j << "],\n";
        j << "  \"runs_per_scenario\": {";
        first = true;
        for (auto const& f : agg.per_scenario)
        {
            j << (first ? "" : ", ") << "\"" << json_escape(f.first) << "\": " << f.second;
            first = false;
        }
        j << "},\n";
        j << "  \"distinct_interleavings\": " << agg.interleavings.size() << ",\n";
        j << "  \"interleaving_measure\": \"distinct hashes of (arrival order, reduction order) sequences over all collectives of a run\",\n";
        j << "  \"sanitizer_slice\": " << (have_san ? "\"every index is also run by the ASan+UBSan flavour on a quarter of the workers\"" : "\"no sanitizer binary\"") << ",\n";
        j << "  \"real_components\": [\"hep::plain/vegas/multi_channel and mpi_* integrators\", \"*_iteration functions\", \"checkpoints, results, serialisation\", \"hep::callback / hep::mpi_callback\", \"vegas_refine_pdf, multi_channel_refine_weights, discrete_distribution\", \"libstdc++ iostreams and std::ofstream (down to the system calls)\", \"libstdc++ random engines and generate_canonical\"],\n";
        j << "  \"stubbed_components\": [\"MPI library (shim: threads, seeded scheduler, seeded reduction order)\", \"kernel file system below fopen64/write/writev/fclose/rename/remove (in-memory model, process-kill crash model)\", \"std::cout buffer (capturing, can fail)\", \"user integrand / channel map / user callback (scripted)\", \"scripted counter based engines next to the standard ones\"],\n";
        j << "  \"known_findings_hit\": " << known_lines.size() << ",\n";
        j << "  \"fresh_process_crosschecks\": " << crosschecks << ",\n";
        j << "  \"fresh_process_mismatches\": " << cross_mismatch << ",\n";
        j << "  \"machinery_failures\": " << machinery << ",\n";
        j << "  \"worker_deaths\": " << crash_plans.size() << "\n";
        j << " },\n";
        j << " \"assumptions\": [\"a finite sample of seeded plans: a clean batch is evidence, not proof\", \"process-kill crash model (page cache survives), no power loss\", \"libstdc++ 12 / x86-64 long double\", \"the scripted integrand, map and callback stand for user code\"]\n";
        j << "}\n";
        spit(vd + "/evidence/" + prop + ".json", j.str());
    }

    // clean the scratch directory
    for (auto const& w : ws)
    {
        std::remove(w.out.c_str());
        std::remove((w.out + ".inflight").c_str());
        std::remove((w.out + ".stderr").c_str());
    }
    std::remove((work + "/min.plan").c_str());
    rmdir(work.c_str());

    for (auto const& l : known_lines) std::printf("%s\n", l.c_str());
    for (auto const& l : lines) std::printf("%s\n", l.c_str());
    std::printf("hepsim: property=%s tier=%s seed=%llu runs=%llu distinct_nontrivial=%zu wall=%.1fs violations=%d known=%zu\n",
        prop.c_str(), tier ? "thorough" : "quick", (unsigned long long) seed, (unsigned long long) agg.evaluations,
        agg.distinct.size(), wall, violations, known_lines.size());
    for (auto const& pz : agg.probes)
    {
        (void) pz;
    }

    if (agg.evaluations == 0) return 2;
    // a violation that passed every gate stands on its own replay file; findings that did not replay
    // are machinery failures and make the check fail as well (exit 2) when nothing else was confirmed
    if (violations != 0) return 1;
    return machinery != 0 ? 2 : 0;
}

// ------------------------------------------------------------------------------------------------

// A sequence file names plans by (property, tier, seed, index): the plans are executed in that order
// in this process and the event log hash of the last one is compared with the hash the same plan
// gives in a process that has executed nothing else. A difference means that something outside the
// checkpoint - state the library keeps in the process - carried over from one integration to the next.
int replay_sequence(std::string const& file, std::string const& text)
{
    std::string prop;
    int tier = 0;
    u64 seed = 0;
    std::vector<u64> indices;
    std::istringstream in(text);
    std::string line;
    while (std::getline(in, line))
    {
        if (line.compare(0, 5, "prop=") == 0) prop = line.substr(5);
        else if (line.compare(0, 5, "tier=") == 0) tier = std::atoi(line.c_str() + 5);
        else if (line.compare(0, 5, "seed=") == 0) seed = std::strtoull(line.c_str() + 5, nullptr, 10);
        else if (line.compare(0, 8, "indices=") == 0)
        {
            std::istringstream li(line.substr(8));
            std::string tok;
            while (std::getline(li, tok, ',')) if (!tok.empty()) indices.push_back(std::strtoull(tok.c_str(), nullptr, 10));
        }
    }
    PropSpec const* ps = find_prop(prop);
    if (ps == nullptr || indices.empty())
    {
        std::fprintf(stderr, "cannot read sequence %s\n", file.c_str());
        return 3;
    }
    Plan const last = plan_for(*ps, tier, seed, indices.back());

    // the reference first, while this process is still untouched
    ChildOut const alone = exec_forked(last, prop, "", 2);
    if (alone.crashed || !alone.same)
    {
        std::printf("sequence %s: the last plan on its own crashed or is not deterministic\n", file.c_str());
        return 2;
    }

    alarm(1800);
    u64 h = 0;
    for (u64 idx : indices)
    {
        Plan const p = plan_for(*ps, tier, seed, idx);
        Report rep;
        execute(p, rep);
        h = rep.hash.h;
    }
    std::printf("sequence %s: %zu plans, last plan (run %llu, scenario %s) hash %llx after the others, %llx on its own\n",
        file.c_str(), indices.size(), (unsigned long long) indices.back(), last.scn.c_str(), (unsigned long long) h,
        (unsigned long long) alone.hash);
    if (h != alone.hash)
    {
        std::printf("VIOLATION property=%s replay=%s\n", prop.c_str(), file.c_str());
        return 1;
    }
    return 0;
}

int replay_main(std::string const& file, std::string const& expect)
{
    {
        std::string const text = slurp(file);
        if (text.compare(0, 15, "hepsim-sequence") == 0) return replay_sequence(file, text);
    }
    Plan p;
    std::string err;
    if (!Plan::from_text(slurp(file), p, err))
    {
        std::fprintf(stderr, "cannot read plan %s: %s\n", file.c_str(), err.c_str());
        return 3;
    }
    alarm(p.total_calls() > (1ULL << 22) ? 3600 : 600);
    Report rep;
    execute(p, rep);
    std::printf("replay %s: scenario=%s hash=%llx findings=%zu\n", file.c_str(), p.scn.c_str(),
        (unsigned long long) rep.hash.h, rep.findings.size());
    bool hit = false;
    for (auto const& f : rep.findings)
    {
        std::printf("  %s %s [%s] %s\n", f.prop.c_str(), f.tag.c_str(), f.key.c_str(), f.detail.c_str());
        if (expect.empty() || expect == f.prop + ":" + f.tag) hit = true;
        if (!expect.empty() && expect.find(':') == std::string::npos && expect == f.prop) hit = true;
    }
    if (hit)
    {
        std::string const prop = expect.empty() ? rep.findings[0].prop : expect.substr(0, expect.find(':'));
        std::printf("VIOLATION property=%s replay=%s\n", prop.c_str(), file.c_str());
        return 1;
    }
    return 0;
}

int selftest_main(std::string const& self, u64 n, u64 seed, int jobs)
{
    // determinism: every plan twice in this process, and once more in fresh processes with other
    // worker counts; the event log hashes must agree
    std::vector<std::string> ids;
    for (auto const& p : props()) ids.push_back(p.id);
    u64 bad = 0, total = 0;
    std::map<std::pair<std::string, u64>, u64> hashes;

    for (auto const& id : ids)
    {
        PropSpec const* ps = find_prop(id);
        for (u64 i = 0; i != n; ++i)
        {
            Plan const p = plan_for(*ps, 0, seed, i);
            Report a, b;
            execute(p, a);
            execute(p, b);
            ++total;
            if (a.hash.h != b.hash.h || a.findings.size() != b.findings.size())
            {
                ++bad;
                std::printf("NONDETERMINISTIC in process: %s run %llu: %llx vs %llx\n", id.c_str(), (unsigned long long) i,
                    (unsigned long long) a.hash.h, (unsigned long long) b.hash.h);
            }
            hashes[{id, i}] = a.hash.h;
        }
    }

    // fresh processes, other worker counts
    std::string const vd = verif_dir();
    mkdir((vd + "/.work").c_str(), 0755);
    for (int J : {1, 3, jobs})
    {
        for (auto const& id : ids)
        {
            std::vector<pid_t> pids;
            std::vector<std::string> outs;
            for (int j = 0; j != J; ++j)
            {
                std::string const out = fmt("%s/.work/self-%d-%s-%d-%d", vd.c_str(), (int) getpid(), id.c_str(), J, j);
                outs.push_back(out);
                pid_t const pid = fork();
                if (pid == 0)
                {
                    int const devnull = open("/dev/null", O_WRONLY);
                    dup2(devnull, 1);
                    dup2(devnull, 2);
                    std::string const a5 = std::to_string(j), a6 = std::to_string(J), a7 = std::to_string(n),
                                      a4 = std::to_string(seed);
                    execl(self.c_str(), self.c_str(), "worker", id.c_str(), "0", a4.c_str(), a5.c_str(), a6.c_str(),
                        a7.c_str(), out.c_str(), "1e18", "fast", (char*) nullptr);
                    _exit(127);
                }
                pids.push_back(pid);
            }
            for (pid_t pid : pids)
            {
                int st;
                waitpid(pid, &st, 0);
            }
            Agg a;
            for (auto const& o : outs)
            {
                u64 last;
                bool done;
                parse_worker_file(o, a, &last, &done);
                std::remove(o.c_str());
                std::remove((o + ".inflight").c_str());
                std::remove((o + ".stderr").c_str());
            }
            for (auto const& h : a.hashes)
            {
                ++total;
                auto it = hashes.find({id, h.first});
                if (it == hashes.end() || it->second != h.second)
                {
                    ++bad;
                    std::printf("NONDETERMINISTIC across processes: %s run %llu with %d workers: %llx vs %llx\n", id.c_str(),
                        (unsigned long long) h.first, J, (unsigned long long) h.second,
                        (unsigned long long) (it == hashes.end() ? 0 : it->second));
                }
            }
        }
    }

    std::printf("selftest: %llu comparisons, %llu mismatches\n", (unsigned long long) total, (unsigned long long) bad);
    return bad == 0 ? 0 : 2;
}

}

int main(int argc, char** argv)
{
    std::setvbuf(stdout, nullptr, _IOLBF, 0);
    std::vector<std::string> a(argv, argv + argc);
    if (a.size() < 2)
    {
        std::fprintf(stderr, "usage: hepsim run|replay|selftest|one|worker ...\n");
        return 3;
    }

    // absolute path of this binary (workers and fresh-process replays exec it)
    char selfbuf[4096];
    ssize_t const sl = readlink("/proc/self/exe", selfbuf, sizeof selfbuf - 1);
    std::string self = (sl > 0) ? std::string(selfbuf, static_cast<std::size_t>(sl)) : a[0];
    // a sanitizer binary supervises nothing; strip the suffix so that "-san" is found next to it
    auto opt = [&](char const* name, std::string const& def) {
        for (std::size_t i = 2; i + 1 < a.size(); ++i)
        {
            if (a[i] == name) return a[i + 1];
        }
        return def;
    };

    if (a[1] == "worker" && a.size() >= 11)
    {
        return worker_main(a[2], std::atoi(a[3].c_str()), std::strtoull(a[4].c_str(), nullptr, 10),
            std::strtoull(a[5].c_str(), nullptr, 10), std::strtoull(a[6].c_str(), nullptr, 10),
            std::strtoull(a[7].c_str(), nullptr, 10), a[8], std::strtod(a[9].c_str(), nullptr), a[10] == "san");
    }

    char const* envseed = std::getenv("VERIF_SEED");
    u64 const seed = std::strtoull(opt("--seed", envseed ? envseed : "1").c_str(), nullptr, 10);
    int const jobs = std::atoi(opt("--jobs", "16").c_str());

    if (a[1] == "run")
    {
        std::string const prop = opt("--prop", "");
        std::string tier = opt("--tier", "quick");
        return run_main(self, prop, tier == "thorough" ? 1 : 0, seed, jobs,
            std::strtoull(opt("--runs", "0").c_str(), nullptr, 10),
            std::strtod(opt("--cap", tier == "thorough" ? "900" : "240").c_str(), nullptr));
    }

    if (a[1] == "replay" && a.size() >= 3)
    {
        return replay_main(a[2], opt("--expect", ""));
    }

    if (a[1] == "selftest")
    {
        return selftest_main(self, std::strtoull(opt("--n", "8").c_str(), nullptr, 10), seed, jobs);
    }

    if (a[1] == "one")
    {
        // hepsim one --prop C03 --idx 17 [--tier quick] : show one generated plan and its verdict
        PropSpec const* ps = find_prop(opt("--prop", "C02"));
        if (ps == nullptr) return 3;
        u64 const idx = std::strtoull(opt("--idx", "0").c_str(), nullptr, 10);
        Plan const p = plan_for(*ps, opt("--tier", "quick") == "thorough", seed, idx);
        std::printf("%s", p.to_text().c_str());
        Report rep;
        execute(p, rep);
        std::printf("hash=%llx calls=%llu findings=%zu\n", (unsigned long long) rep.hash.h, (unsigned long long) rep.calls,
            rep.findings.size());
        for (auto const& f : rep.findings)
        {
            std::printf("  %s %s [%s] %s\n", f.prop.c_str(), f.tag.c_str(), f.key.c_str(), f.detail.c_str());
        }
        for (auto const& f : rep.faults) std::printf("  fault %s=%llu\n", f.first.c_str(), (unsigned long long) f.second);
        for (auto const& f : rep.probes) std::printf("  probe %s=%llu\n", f.first.c_str(), (unsigned long long) f.second);
        return rep.findings.empty() ? 0 : 1;
    }

    std::fprintf(stderr, "unknown command\n");
    return 3;
}
