// hepsim - MPI world: P ranks = P real threads, parked; a seeded scheduler releases exactly one at
// a time. A rank gives the baton back when it enters a collective or returns.
#ifndef HEPSIM_MPISHIM_HPP
#define HEPSIM_MPISHIM_HPP

#include "ctx.hpp"
#include "prng.hpp"

#include <condition_variable>
#include <functional>
#include <mutex>
#include <string>
#include <thread>
#include <vector>

namespace sim
{

class MpiWorld
{
public:
    enum State { NEW, RUNNABLE, WAITING, DONE, DEAD };

    struct Rank
    {
        State st = NEW;
        void* buf = nullptr;
        int count = 0;
        int dtype = 0;
        int comm = 0;              // communicator of the collective the rank waits in
        int color = 0;             // group of the rank when the world is split (communicator 100 + color)
        bool kill = false;
        std::uint64_t stall = 0;
        std::string what;          // exception text if the rank died of one
        bool died_killed = false;
        Ctx ctx;
        std::thread th;
    };

    MpiWorld(int P, std::uint64_t sseed, int rorder, double stall_p);

    // runs body(rank) on every rank under the scheduler; returns when all ranks are done or dead
    void run(std::function<void(int)> const& body);

    int size() const { return static_cast<int>(ranks.size()); }

    std::vector<Rank> ranks;

    // results of the schedule
    bool hang = false;
    std::string hang_why;
    bool aborted = false;           // a rank died (kill or exception) and took the job with it
    std::uint64_t steps = 0;
    std::uint64_t collectives = 0;
    std::uint64_t stalls_fired = 0;
    std::uint64_t reorders = 0;     // collectives whose arrival order was not rank order
    Fnv interleave;                 // hash of arrival orders and reduction orders
    std::uint64_t step_budget = 0;
    double fs_yield_p = 0;          // probability that a rank hands the baton back before a file system call
    std::uint64_t fs_yields = 0;

    // used by the MPI_* entry points
    int allreduce(int rank, void* buf, int count, int dtype, int comm);
    int comm_rank(int comm, int world_rank) const;
    int comm_size(int comm, int world_rank) const;
    // a file system call of rank r: a scheduling point (other ranks may run before the call takes effect)
    void fs_point(int rank);

private:
    void give(int r);               // scheduler: hand the baton to r and wait until it comes back
    void yield_from(int r);         // rank: hand the baton to the scheduler and wait for it
    void reduce_group(std::vector<int> const& members);
    std::vector<int> members_of(int comm, int world_rank) const;

    std::mutex m_;
    std::condition_variable cv_;
    int baton_ = -1;
    std::uint64_t sseed_ = 0;
    Rng rng_;
    int rorder_;
    double stall_p_;
    std::vector<int> arrival_;
};

MpiWorld*& current_world();
int& current_rank();
// called by the file model before every intercepted call
void fs_sched_point();

}

#endif
