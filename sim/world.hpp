// hepsim - type erased interface between the scenario drivers / oracles and the instantiations of
// the real hep-mc templates (numeric type x random engine).
#ifndef HEPSIM_WORLD_HPP
#define HEPSIM_WORLD_HPP

#include "ctx.hpp"
#include "plan.hpp"

#include <cmath>
#include <cstdint>
#include <memory>
#include <string>
#include <vector>

namespace sim
{

using ld = long double;
using u64 = std::uint64_t;

struct BinView
{
    u64 calls = 0, nz = 0, fin = 0;
    ld sum = 0, sumsq = 0;
};

struct DistView
{
    u64 bx = 0, by = 0;
    ld xmin = 0, ymin = 0, sx = 0, sy = 0;
    std::string name;
    std::vector<BinView> bins;
    std::vector<ld> midx, midy;
};

struct ResultView
{
    u64 calls = 0, nz = 0, fin = 0;
    ld sum = 0, sumsq = 0, value = 0, variance = 0, error = 0;
    std::vector<DistView> dists;
    u64 pbins = 0, pdims = 0;
    std::vector<ld> pdf;        // VEGAS: grid this iteration used
    std::vector<ld> adj;        // adjustment data (VEGAS / multi-channel)
    std::vector<ld> weights;    // multi-channel: weights this iteration used
    std::vector<ld> refined;    // what the library's public refinement makes of (state, adj) in T
};

struct ChkptView
{
    int integ = 0;
    std::vector<ResultView> results;
    ld alpha = 0, beta = 0, minw = 0;
    bool has_next = false;
    std::vector<ld> next;       // chkpt.pdf() boundaries or chkpt.channel_weights()
    u64 next_bins = 0, next_dims = 0;
    std::string text;
    std::vector<std::string> gen_texts;   // generator lines of the text, oldest first
    bool gen_is_last = true;    // chkpt.generator() equals the last generator of the text
};

struct RunCtl
{
    u64 P = 0;                  // 0 serial API, >= 1 MPI API under the shim
    u64 comm_split = 0;         // > 0: ranks [0, a) and [a, P) form two sub-communicators, each runs its own job
    int cbk = 0;                // 0 built-in, 1 scripted user callback
    int mode = 0;
    ld target = 0;
    std::string filename;       // for the writing modes
    u64 user_stop = ~0ULL;      // scripted callback returns false when it sees this many results
    bool user_durable = false;  // scripted callback stores the text durably (file model)
    bool user_stateful = false; // the scripted callback counts its own invocations (state inside the functor)
    bool nested = false;        // the integrand runs a small nested integration on some calls
    bool two_jobs = false;      // split world: the second half runs another integration (other seed, own file)
    double fs_yield_p = 0;      // MPI: probability that a rank is descheduled before a file system call
    bool params_from_chkpt = false;   // continued runs take the distribution parameters from the last result
    bool base_typed = false;    // built-in callback instantiated with the checkpoint's base class (no generators)
    bool log_text = true;
    bool log_calls = true;
    // faults
    bool kill_armed = false;
    std::uint32_t kill_iter = 0;
    u64 kill_call = 0;
    int kill_rank = 0;
    std::vector<Fault> poison_calls;
    u64 poison_q = 0, poison_mask = 0;
    bool zero_instead = false;
    std::vector<Fault> forced;  // FLT_RNG_FORCE
    int genmode = 0;
    u64 lat_n = 0, lat_base = 0, lat_points = 0, lat_active = 0;   // lat_active 0: all dimensions
    std::vector<u64> lat_selector;
    u64 sseed = 0;
    int rorder = 0;
    double stall_p = 0;
    std::vector<Fault> stalls;
    u64 cout_limit = ~0ULL;
    std::vector<Fault> fs_faults;
    bool fs_trace = false;
};

struct RunOut
{
    bool killed = false;        // the run ended by a simulated process death
    bool hang = false;
    std::string hang_why;
    bool threw = false;         // an exception other than sim::killed escaped
    std::string what;
    std::vector<Ctx> ranks;     // logs per rank (serial: one)
    std::vector<std::string> rank_texts;   // serialised checkpoint returned on every rank
    u64 steps = 0, collectives = 0, interleave = 0, reorders = 0, stalls = 0, fs_yields = 0;
    std::string cout_text;
    int cout_writers = 0;
    u64 cout_failed = 0;
    u64 results = 0;            // results in the returned checkpoint (rank 0)
    u64 base = 0;               // results the checkpoint had before this run
};

struct LoadInfo
{
    bool stream_ok = false;     // the stream was not in a failed state after reading
    bool only_ws_left = false;  // nothing but white space remained unread
    bool threw = false;
    std::string what;
};

// reference data the oracles need from the real templates
struct SerialRef
{
    bool ok = false;
    Ctx log;                    // call log of the public serial *_iteration
    ResultView result;
    std::string gen_after;      // text of the generator after the iteration
};

struct UsageInfo
{
    u64 predicted = 0;          // hep::random_number_usage<T, E>()
    unsigned digits = 0;
};

class IWorld
{
public:
    virtual ~IWorld() = default;

    virtual int nt() const = 0;
    virtual int eng() const = 0;

    // initial checkpoint from the plan's parameters (grid / weights / alpha / beta / engine seed)
    virtual void fresh(Plan const& p) = 0;
    // rebuilds the checkpoint from text with the public make_*_chkpt(std::istream&)
    virtual bool load(Plan const& p, std::string const& text, LoadInfo& info) = 0;
    virtual std::string text() const = 0;
    virtual ChkptView view() const = 0;
    virtual u64 nresults() const = 0;
    // 0 fine, 1 std::out_of_range, 2 another exception
    virtual int rollback(u64 k) = 0;
    // runs `calls` more iterations on the checkpoint with the real integrator
    virtual RunOut run(Plan const& p, std::vector<u64> const& calls, RunCtl const& ctl) = 0;
    virtual std::unique_ptr<IWorld> clone() const = 0;
    // checkpoint assembled through the public constructors and add() with corner case field values
    virtual void assemble(Plan const& p, u64 seed) = 0;
    // the user changes alpha / beta / minimum weight between two runs: a new checkpoint with the
    // parameters of q takes over the results one by one (public add) and the current generator
    virtual bool transplant(Plan const& q) = 0;
    // the checkpoint without its generators (a copy of the base class object, as a program that only
    // archives results keeps it) written and read back: empty string if the text is reproduced
    virtual std::string base_roundtrip() const = 0;
    // the user's program keeps a checkpoint object and copy-assigns a later one over it
    virtual bool assign_from(IWorld const& other) = 0;
    // the user's program redoes the last iteration by hand: keeps the state it was drawn with, rolls the
    // checkpoint back by one, calls the public *_iteration function itself and add()s the result
    virtual bool redo_last_by_hand(Plan const& p, u64 calls, RunCtl const& ctl) = 0;
    // a multi-channel run on a checkpoint class of the user's own (fixed channel weights, built on
    // chkpt_with_rng<E, chkpt<multi_channel_result<T>>>) with the built-in callback in all four modes:
    // empty string if all modes return the same results without an exception
    virtual std::string user_chkpt_modes(Plan const& p, std::vector<u64> const& calls, RunCtl const& ctl) = 0;

    // public serial *_iteration on the state recorded in result k and the generator stored before
    // iteration k, with `calls` calls (C04 oracle)
    virtual SerialRef serial_iteration(Plan const& p, u64 k, RunCtl const& ctl) const = 0;
    // generator stored before iteration k advanced by n raw outputs == generator stored after? (C10)
    virtual bool generator_advance_matches(u64 k, u64 n) const = 0;
    virtual UsageInfo usage() const = 0;
    // state of the first iteration as the numeric type forms it: the uniform default, or the user's
    // grid / raw weights rounded to T
    virtual std::vector<ld> first_state_input(Plan const& p) const = 0;
    // relative error of the variance weighted combination of the first k results, k = 1..n, formed in
    // the numeric type with the library's public accumulate, exactly as the built-in callback forms it
    virtual std::vector<ld> combined_rel_errors() const = 0;
    // bitwise comparison of two checkpoints' generators
    virtual bool same_generator(IWorld const& other) const = 0;
};

std::unique_ptr<IWorld> make_world(int nt, int eng);

// bit level equality of two values that came from the same numeric type
inline bool same_bits(ld a, ld b)
{
    if (a != a || b != b) return (a != a) && (b != b);
    return a == b && std::signbit(a) == std::signbit(b);
}

ld eps_of(int nt);

// direct probes of public types (probes.cpp), numeric type chosen at run time
u64 probe_select(int nt, std::vector<ld> const& weights, u64 raw);

struct VegasPointProbe
{
    std::vector<u64> bins;
    std::vector<ld> x;
    ld w = 0;
};

// hep::vegas_point constructed on a random number vector that may contain exactly 1
VegasPointProbe probe_vegas_point(int nt, std::vector<ld> const& grid, u64 bins, u64 dims,
    std::vector<ld> const& u);

// engine with range [lo, hi]: what hep::random_number_usage predicts and what one canonical number
// really costs (minimum and maximum over `samples` numbers)
void probe_usage(int nt, u64 lo, u64 hi, u64 samples, u64& predicted, u64& measured_min, u64& measured_max);

// the refinement functions fed directly
std::vector<ld> probe_refine_weights(int nt, std::vector<ld> const& w, std::vector<ld> const& data, ld minw, ld beta);
std::vector<ld> probe_refine_pdf(int nt, std::vector<ld> const& grid, u64 bins, u64 dims, ld alpha,
    std::vector<ld> const& data);

}

#endif
