// hepsim - random engines owned by the simulator.
#ifndef HEPSIM_ENGINES_HPP
#define HEPSIM_ENGINES_HPP

#include "ctx.hpp"

#include <cstdint>
#include <istream>
#include <ostream>
#include <random>

namespace sim
{

// raw output of the scripted stream `stream` at position `pos`
inline std::uint64_t script_raw(std::uint64_t stream, std::uint64_t pos)
{
    Ctx* c = current_ctx();

    if (c != nullptr)
    {
        if (!c->forced.empty())
        {
            auto it = c->forced.find(pos);
            if (it != c->forced.end())
            {
                ++c->forced_hits;
                return it->second;
            }
        }

        if (c->genmode == 1 && pos >= c->lat_base)
        {
            // midpoint lattice: call q uses the base-n digits of q
            std::uint64_t const rel = pos - c->lat_base;
            std::uint64_t const q = rel / c->lat_percall;
            std::uint64_t const j = rel % c->lat_percall;
            std::uint64_t const block = q / c->lat_points;

            if (j >= c->lat_dims)
            {
                return (block < c->lat_selector.size()) ? c->lat_selector[block] : 0;
            }

            if (j >= c->lat_active)
            {
                return 1ULL << 63;   // spectator dimension: the mid point 1/2
            }

            std::uint64_t digit = q % c->lat_points;
            for (std::uint64_t k = 0; k != j; ++k) digit /= c->lat_n;
            digit %= c->lat_n;

            // (digit + 1/2) / n * 2^64
            unsigned __int128 const num = (static_cast<unsigned __int128>(2 * digit + 1)) << 63;
            return static_cast<std::uint64_t>(num / c->lat_n);
        }
    }

    return mix2(stream, pos);
}

// Counter based engine: state = (stream, position), O(1) discard, text = the two integers.
template <unsigned Bits>
class ScriptEngine
{
public:
    using result_type = typename std::conditional<Bits == 64, std::uint64_t, std::uint32_t>::type;

    static constexpr result_type min() { return 0; }
    static constexpr result_type max()
    {
        return (Bits >= 8 * sizeof(result_type)) ? static_cast<result_type>(~result_type(0))
                                                  : static_cast<result_type>((std::uint64_t(1) << (Bits % 64)) - 1);
    }

    ScriptEngine() = default;
    explicit ScriptEngine(std::uint64_t stream) : stream_(stream) {}

    void seed(std::uint64_t stream = 1) { stream_ = stream; pos_ = 0; }

    result_type operator()()
    {
        std::uint64_t const raw = script_raw(stream_, pos_);
        ++pos_;
        Ctx* c = current_ctx();
        if (c != nullptr && c->counting)
        {
            ++c->pos;
            ++c->draws;
            c->last_epos = pos_;
            c->last_raw = raw;
            c->last_stream = stream_;
        }
        return static_cast<result_type>(Bits == 64 ? raw : (raw >> (64 - Bits % 64)));
    }

    void discard(unsigned long long n)
    {
        pos_ += n;
        Ctx* c = current_ctx();
        if (c != nullptr && c->counting)
        {
            c->pos += n;
            c->discarded += n;
            ++c->discards;
        }
    }

    std::uint64_t stream() const { return stream_; }
    std::uint64_t position() const { return pos_; }

    friend bool operator==(ScriptEngine const& a, ScriptEngine const& b)
    {
        return a.stream_ == b.stream_ && a.pos_ == b.pos_;
    }

    friend bool operator!=(ScriptEngine const& a, ScriptEngine const& b) { return !(a == b); }

    friend std::ostream& operator<<(std::ostream& out, ScriptEngine const& e)
    {
        auto const flags = out.flags();
        out.flags(std::ios_base::dec | std::ios_base::left);
        out << e.stream_ << ' ' << e.pos_;
        out.flags(flags);
        return out;
    }

    friend std::istream& operator>>(std::istream& in, ScriptEngine& e)
    {
        auto const flags = in.flags();
        in.flags(std::ios_base::dec | std::ios_base::skipws);
        in >> e.stream_ >> e.pos_;
        in.flags(flags);
        return in;
    }

private:
    std::uint64_t stream_ = 1;
    std::uint64_t pos_ = 0;
};

// A standard engine that reports every draw and discard to the simulator. Serialises exactly like
// the engine it wraps, so checkpoint texts are those a user of the plain engine would get.
template <typename E>
class CountingEngine
{
public:
    using result_type = typename E::result_type;

    static constexpr result_type min() { return E::min(); }
    static constexpr result_type max() { return E::max(); }

    CountingEngine() = default;
    explicit CountingEngine(std::uint64_t s) : e_(static_cast<result_type>(s)) {}

    void seed(std::uint64_t s) { e_.seed(static_cast<result_type>(s)); }

    result_type operator()()
    {
        Ctx* c = current_ctx();
        result_type const v = e_();
        if (c != nullptr && c->counting)
        {
            ++c->pos;
            ++c->draws;
            c->raw_ring[c->draws % 4] = static_cast<std::uint64_t>(v);
        }
        return v;
    }

    void discard(unsigned long long n)
    {
        Ctx* c = current_ctx();
        if (c != nullptr && c->counting)
        {
            c->pos += n;
            c->discarded += n;
            ++c->discards;
        }
        e_.discard(n);
    }

    friend bool operator==(CountingEngine const& a, CountingEngine const& b) { return a.e_ == b.e_; }
    friend bool operator!=(CountingEngine const& a, CountingEngine const& b) { return !(a == b); }

    friend std::ostream& operator<<(std::ostream& out, CountingEngine const& e)
    {
        return out << e.e_;
    }

    friend std::istream& operator>>(std::istream& in, CountingEngine& e) { return in >> e.e_; }

private:
    E e_;
};

// Engine with an arbitrary range [lo, hi], set before use (one type serves all ranges); used for the
// consumption property C10 only.
struct RangeEngine
{
    using result_type = std::uint64_t;

    static std::uint64_t& lo_ref() { static std::uint64_t v = 0; return v; }
    static std::uint64_t& hi_ref() { static std::uint64_t v = ~0ULL; return v; }
    static std::uint64_t min() { return lo_ref(); }
    static std::uint64_t max() { return hi_ref(); }

    std::uint64_t stream = 1, pos = 0;

    std::uint64_t operator()()
    {
        std::uint64_t const span = max() - min();   // range size - 1
        std::uint64_t const raw = mix2(stream, pos);
        ++pos;
        Ctx* c = current_ctx();
        if (c != nullptr && c->counting)
        {
            ++c->pos;
            ++c->draws;
        }
        return (span == ~0ULL) ? raw : min() + raw % (span + 1);
    }

    void discard(unsigned long long n)
    {
        pos += n;
        Ctx* c = current_ctx();
        if (c != nullptr && c->counting)
        {
            c->pos += n;
            c->discarded += n;
            ++c->discards;
        }
    }

    friend bool operator==(RangeEngine const& a, RangeEngine const& b)
    {
        return a.stream == b.stream && a.pos == b.pos;
    }

    friend std::ostream& operator<<(std::ostream& out, RangeEngine const& e)
    {
        return out << e.stream << ' ' << e.pos;
    }

    friend std::istream& operator>>(std::istream& in, RangeEngine& e)
    {
        return in >> e.stream >> e.pos;
    }
};

}

#endif
