// hepsim - serial scenarios: history, lattice, poison, grid, weights, select, usage, bins, protocol
#include "scen.hpp"

#include <algorithm>
#include <cmath>

namespace sim
{

long double script_poly_integral(Plan const& p, std::size_t n);

// ------------------------------------------------------------------------------------------------
// history: plain serial runs, everything armed (C02, C10, C17, C19 and the invariants)

void add_extreme_draws(Rng& r, Plan& p, double prob)
{
    // (the scripted engines with 32 and 14 bits take the top bits of the forced value)
    if ((p.eng != E_SCRIPT64 && p.eng != E_SCRIPT32 && p.eng != E_SCRIPT14) || !r.chance(prob)) return;
    u64 const per_call = p.dims + (p.integ == MULTI ? 1 : 0);
    u64 const total = p.total_calls() * per_call;
    if (total == 0) return;
    u64 const n = 1 + r.below(4);
    for (u64 i = 0; i != n; ++i)
    {
        Fault f;
        f.kind = FLT_RNG_FORCE;
        f.a = r.below(total);
        f.v = r.chance(0.5) ? 0 : ~0ULL;   // canonical 0 and the largest value below 1
        p.faults.push_back(f);
    }
}

static Plan gen_history(Rng& r, int tier, std::string const& focus)
{
    Plan p;
    p.scn = "history";
    GenOpts o;
    o.max_calls = tier ? 2000 : 300;
    o.max_iters = tier ? 8 : 5;
    o.allow_high_dims = true;
    o.allow_tiny = true;
    if (focus == "C07") o.integ = VEGAS;
    if (focus == "C08" || focus == "C09") o.integ = MULTI;
    if (focus == "C17" && r.chance(0.6)) o.integ = MULTI;
    if (focus == "C10") o.eng_class = r.chance(0.7) ? 3 : 0;
    gen_world(r, p, o);
    // the built-in callback for a part of the runs, with target zero (never stops)
    if (r.chance(0.3))
    {
        p.cbk = 0;
        p.mode = 0;
        p.target = 0;
        // calls of 0 or 1 make the built-in stop rule meet NaN; that is C12's business
        for (auto& c : p.calls) c = std::max<u64>(c, 2);
        if (p.fk == F_ZERO || p.fk == F_CONST) p.fk = F_POLY;
    }
    // values whose squares (not the values themselves) are in the subnormal range of the numeric type
    if (r.chance(focus == "C02" ? 0.06 : 0.03) && p.dims <= 3) p.fmag = tiny_exponent(r, p.nt) / 2 - static_cast<int>(r.below(8));
    add_extreme_draws(r, p, 0.5);
    if (p.integ != PLAIN && p.calls.size() >= 2 && r.chance(0.12))
    {
        // the user changes the adaptation parameters between two runs: a new checkpoint with the new
        // parameters takes over the results (aux = {iterations before the change, what changes})
        p.variant = 11;
        p.aux.assign(2, 0);
        p.aux[0] = 1 + r.below(p.calls.size() - 1);
        p.aux[1] = r.next() >> 8;
    }
    if (tier && r.chance(0.000004))
    {
        // more calls than fit into 32 bits: counters, N (N - 1) and friends
        p.variant = 10;
        p.integ = PLAIN;
        p.nt = NT_D;
        p.eng = E_SCRIPT64;
        p.dims = 1;
        p.acc = 0;
        p.dists.clear();
        p.fk = F_SIGN;
        p.fmag = 0;
        p.faults.clear();
        p.cbk = 1;
        p.stop = -1;
        p.calls.assign(1, (1ULL << 32) + 2 + r.below(5));
    }
    return p;
}

static void exec_history(Plan const& p, Report& rep)
{
    Session s(p, rep);
    s.fresh();
    RunCtl ctl = ctl_from_plan(p);
    if (p.variant == 10)
    {
        // giant run: no call logs; the oracles that need only the result fields still run
        ctl.log_calls = false;
        ctl.log_text = false;
        rep.probes["giant-run-2^32"]++;
    }
    if (p.variant == 11 && p.aux.size() >= 2 && p.aux[0] >= 1 && p.aux[0] < p.calls.size())
    {
        std::vector<u64> const first(p.calls.begin(), p.calls.begin() + p.aux[0]);
        std::vector<u64> const second(p.calls.begin() + p.aux[0], p.calls.end());
        RunOut const o1 = s.run(first, ctl);
        rep.nontrivial = true;
        if (o1.threw || o1.killed || o1.results != first.size()) return;
        oracle_c07_share(p, s.w->view(), rep);

        Plan q = p;
        static ld const alphas[] = {0.0L, 0.2L, 0.5L, 1.0L, 1.5L, 3.0L};
        static ld const betas[] = {0.125L, 0.25L, 0.5L, 0.75L, 1.0L};
        u64 const h = p.aux[1];
        q.alpha = alphas[h % 6];
        if (q.alpha == p.alpha) q.alpha = alphas[(h + 1) % 6];
        q.beta = betas[(h / 6) % 5];
        if (q.beta == p.beta) q.beta = betas[(h / 6 + 1) % 5];
        q.minw = ((h / 30) % 2) ? 0.0L : static_cast<ld>(static_cast<float>(0.5L / p.chan * (static_cast<ld>(mix2(h, 3) >> 11) / 9007199254740992.0L)));

        Session s2(q, rep);
        s2.w = std::move(s.w);
        if (!s2.w->transplant(q)) return;
        rep.probes["adaptation-parameters-changed-between-runs"]++;
        RunCtl const c2 = ctl_from_plan(q);
        RunOut const o2 = s2.run(second, c2);
        if (o2.threw) rep.fail("C12", "exception", key_of(q), o2.what);
        return;
    }

    RunOut const out = s.run(p.calls, ctl);
    if (out.threw) rep.fail("C12", "exception", key_of(p), out.what);
    ChkptView const v = s.w->view();
    oracle_c07_share(p, v, rep);
    bool zeros = false;
    for (auto const& c : out.ranks)
    {
        for (auto const& rec : c.calls) zeros = zeros || rec.f == 0;
    }
    rep.nontrivial = (p.calls.size() > 1) || zeros || !p.faults.empty();
}

// ------------------------------------------------------------------------------------------------
// lattice: C01

static Plan gen_lattice(Rng& r, int tier, std::string const&)
{
    Plan p;
    p.scn = "lattice";
    GenOpts o;
    o.eng_class = 2;
    o.allow_dists = false;
    gen_world(r, p, o);
    // the projector variant of the integrand in a part of the plans (the accumulator differs)
    p.acc = r.chance(0.3);
    p.dists.clear();
    if (p.acc) gen_dists(r, p, 1 + static_cast<int>(r.below(2)), false);
    p.fk = F_POLY;
    p.genmode = 1;
    p.mapd = 0;
    p.cbk = 1;
    p.askw = static_cast<int>(r.below(3));
    p.jexp = static_cast<int>(r.below(41)) - 20;
    if (p.nt == NT_F) p.fmag = static_cast<int>(r.below(5)) - 2;

    static u64 const spectators[] = {8, 17, 18, 22, 38, 146, 150};

    if (p.integ == PLAIN)
    {
        p.dims = 1 + r.below(3);
        p.ln = 2 + r.below(p.dims == 3 ? 10 : 30);
        p.variant = 0;
        if (r.chance(0.05))
        {
            // lattice over two dimensions, the others are spectators at their mid point
            p.variant = 3;
            p.dims = 2 + r.pick(spectators);
            p.ln = 2 + r.below(40);
        }
    }
    else if (p.integ == VEGAS)
    {
        p.dims = 1 + r.below(tier ? 3 : 2);
        static u64 const b[] = {2, 3, 4, 5, 7, 8, 16};
        p.bins = r.pick(b);
        if (p.dims == 3 && p.bins > 8) p.bins = 8;
        u64 const m = 1 + r.below(3);
        p.ln = m * p.bins;
        if (p.dims == 3 && p.ln > 32) p.ln = p.bins;
        p.variant = r.below(3);   // 0 uniform, 1 user grid, 2 adapted grid, 3 high dimensional
        p.grid = (p.variant == 1);
        p.aux.clear();
        if (r.chance(0.08))
        {
            // many dimensions: lattice over the first two, the others are spectators at their mid
            // point on a uniform grid (products of many bin widths / bin counts leave the exponent
            // range of the numeric type if they are not formed factor by factor)
            p.variant = 3;
            p.dims = 2 + r.pick(spectators);
            static u64 const hb[] = {128, 128, 64, 16};
            p.bins = r.pick(hb);
            p.ln = p.bins;
            p.grid = r.chance(0.5);
        }
        if (p.variant == 2)
        {
            // adaptation history: iterations on a peaked integrand before the lattice iteration
            u64 const pre = 1 + r.below(tier ? 30 : 8);
            for (u64 i = 0; i != pre; ++i) p.aux.push_back(50 + r.below(400));
            p.grid = r.chance(0.3);
        }
    }
    else
    {
        p.dims = 1 + r.below(2);
        p.chan = 1 + r.below(5);
        p.ln = (p.dims == 1) ? (r.chance(0.5) ? 16 : 32) : 16;
        p.minw = 0;
        p.aux.clear();
        if (r.chance(0.2))
        {
            // (iii) user weights with a floor, no adaptation: the first iteration samples with the
            // normalised, floored, renormalised user weights; every enabled channel gets one lattice
            p.variant = 79;
            p.wts = 1;
            p.minw = static_cast<ld>(static_cast<float>((0.1 + 0.85 * r.unit()) / p.chan));
        }
        else if (r.chance(0.5))
        {
            // (i) weights that are multiples of 1/R, zeros included: channel i gets aux[i] lattices
            p.variant = 77;
            p.wts = 1;
            u64 sum = 0;
            for (u64 i = 0; i != p.chan; ++i)
            {
                u64 const w = r.chance(0.25) ? 0 : 1 + r.below(4);
                p.aux.push_back(w);
                sum += w;
            }
            if (sum == 0) p.aux[r.below(p.chan)] = 1;
        }
        else
        {
            // (ii) weights as adaptation produces them: aux = calls of the adaptive iterations
            p.variant = 78;
            u64 const pre = 1 + r.below(tier ? 12 : 5);
            for (u64 i = 0; i != pre; ++i) p.aux.push_back(40 + r.below(300));
            p.minw = r.chance(0.5) ? 0.0L : static_cast<ld>(static_cast<float>(0.5 * r.unit() / p.chan));
        }
    }

    if (r.chance(0.04)) p.fmag = tiny_exponent(r, p.nt) + 6;   // products in the subnormal range
    if (p.integ != MULTI && p.variant != 3 && r.chance(tier ? 0.01 : 0.004))
    {
        // a million lattice points in float with a distribution: the estimate is a long sum
        p.variant = 4;
        p.nt = NT_F;
        p.dims = 1;
        p.grid = 0;
        p.aux.clear();
        p.bins = 16;
        p.ln = (1ULL << 20) * (1 + r.below(2));
        p.acc = 1;
        gen_dists(r, p, 1, false);
        p.dists[0].bx = 4;
        p.dists[0].two_d = 0;
        p.dists[0].by = 1;
        p.fmag = 0;
    }
    p.calls.clear();
    return p;
}

static u64 ipow(u64 b, u64 e)
{
    u64 r = 1;
    while (e--) r *= b;
    return r;
}

static void exec_lattice(Plan const& p, Report& rep)
{
    Session s(p, rep);
    s.fresh();
    ld const eps = eps_of(p.nt);
    ld const exact = script_poly_integral(p, p.dims);
    u64 const active = (p.variant == 3 && p.integ != MULTI) ? 2 : p.dims;
    u64 const N = ipow(p.ln, active);
    std::string const key = fmt("%s %s", integ_name(p.integ), nt_name(p.nt));

    RunCtl ctl = ctl_from_plan(p);
    ctl.genmode = 0;
    u64 const per_call = p.dims + (p.integ == MULTI ? 1 : 0);
    u64 base_pos = 0;

    // adaptation history on a different (peaked) integrand with the hash stream
    if ((p.integ == VEGAS && p.variant == 2) || (p.integ == MULTI && p.variant == 78))
    {
        Plan q = p;
        q.fk = F_PEAK;
        q.genmode = 0;
        q.calls = p.aux;
        RunOut const pre = s.w->run(q, q.calls, ctl);
        absorb(pre, rep);
        if (pre.threw || pre.killed) return;
        for (u64 c : p.aux) base_pos += c * per_call;
    }

    // the state the lattice iteration starts from may have passed through text (a restarted program),
    // and the restarted program may have rolled the checkpoint back to its first state
    {
        u64 const rt = mix2(p.fseed, 31337) % 6;
        bool const serialisable = (p.integ == PLAIN) || s.w->nresults() != 0 || (p.integ == VEGAS && p.grid == 1) ||
            (p.integ == MULTI && p.wts == 1);
        if (rt < 2 && serialisable && !(p.variant == 4 && p.integ != MULTI))
        {
            if (!s.reload("lattice") && !s.reload_usable) return;
            rep.probes["state-through-text"]++;
            if (rt == 1 && s.w->nresults() != 0)
            {
                if (s.w->rollback(0) != 0) return;
                base_pos = 0;
                rep.probes["state-through-text-and-rollback"]++;
            }
        }
    }

    ChkptView const before = s.w->view();

    ctl.genmode = 1;
    ctl.lat_n = p.ln;
    ctl.lat_points = N;
    ctl.lat_base = base_pos;
    ctl.lat_active = active;

    std::vector<u64> blocks;   // channel of each lattice block

    if (p.integ == MULTI)
    {
        // which channels are enabled, and with which weights, for the lattice iteration
        std::vector<ld> alpha = before.has_next ? before.next : std::vector<ld>();
        if (alpha.empty())
        {
            // default checkpoint that has not run: uniform weights
            alpha.assign(p.chan, 1.0L / p.chan);
        }
        ld tot = 0;
        for (ld a : alpha) tot += a;
        std::vector<ld> cum;
        ld c = 0;
        for (ld a : alpha)
        {
            c += a;
            cum.push_back(c / tot);
        }
        for (u64 i = 0; i != p.chan; ++i)
        {
            if (alpha[i] == 0) continue;
            u64 const reps = (p.variant == 77) ? p.aux[i] : 1;
            ld const lo = (i == 0) ? 0.0L : cum[i - 1];
            ld const mid = 0.5L * (lo + cum[i]);
            for (u64 k = 0; k != reps; ++k)
            {
                blocks.push_back(i);
                // (a channel whose interval is empty at the top of [0, 1) gets the largest value below one)
                ctl.lat_selector.push_back(mid >= 1.0L ? ~0ULL : static_cast<u64>(std::ldexp(mid, 64)));
            }
        }
        for (ld a : alpha)
        {
            if (a != a)
            {
                rep.probes["lattice-skipped-nan-weights"]++;
                return;   // broken refinement: C08's business
            }
        }
    }
    else
    {
        blocks.push_back(0);
    }

    std::vector<u64> const calls{N * blocks.size()};
    bool const big = (p.variant == 4 && p.integ != MULTI);
    if (big)
    {
        ctl.log_calls = false;
        ctl.log_text = false;
        s.check = false;
    }
    RunOut const out = s.run(calls, ctl);
    if (out.threw || out.killed || out.results == 0) return;

    ChkptView const v = s.w->view();
    ResultView const& rv = v.results.back();

    if (big)
    {
        // positive integrand, weights of order one: the magnitude for the tolerance is the integral
        rep.nontrivial = true;
        rep.probes["lattice-of-a-million-points"]++;
        ld const tol = 256 * eps * std::fabs(exact);
        if (!(std::fabs(rv.value - exact) <= tol))
        {
            rep.fail("C01", "lattice-not-exact", key, fmt(
                "results()[k].value() = %.21Lg, exact integral %.21Lg, difference %.3Lg, tolerance %.3Lg (%llu points, with a distribution)",
                rv.value, exact, std::fabs(rv.value - exact), tol, (unsigned long long) N));
        }
        return;
    }

    // mean |f * w| for the tolerance, and per block means
    std::vector<ld> block_sum(blocks.size(), 0.0L);
    ld mag = 0;
    u64 cnt = 0;
    for (auto const& rec : out.ranks[0].calls)
    {
        if (!rec.entered)
        {
            // a point of the lattice the integrand never saw: the average is over the whole hypercube
            rep.fail("C01", "lattice-point-dropped", key, fmt("call %llu (channel %u) never reached the integrand",
                (unsigned long long) rec.idx, rec.channel));
            return;
        }
        ld w = 0;
        if (!call_weight(out.ranks[0], rec, rv, w)) continue;
        ld const val = rec.f * w;
        if (!std::isfinite(val))
        {
            // normalised densities, positive weights, a finite jacobian: nothing here may be non-finite
            rep.fail("C01", "non-finite-weight", key, fmt("call %llu (channel %u): value %.6Lg times weight %.6Lg",
                (unsigned long long) rec.idx, rec.channel, rec.f, w));
            return;
        }
        mag += std::fabs(val);
        ++cnt;
        u64 const b = rec.idx / N;
        if (b < block_sum.size()) block_sum[b] += val;
        if (p.integ == MULTI && b < blocks.size() && rec.channel != blocks[b])
        {
            // the forced selector did not give the wanted channel: selection is C09's business,
            // this run cannot be evaluated
            rep.probes["lattice-channel-mismatch"]++;
            return;
        }
    }
    if (cnt == 0) return;
    mag /= cnt;
    ld const denorm = (p.nt == NT_F) ? std::ldexp(1.0L, -149) : (p.nt == NT_D) ? std::ldexp(1.0L, -1074) : std::ldexp(1.0L, -16445);
    ld const tol = 256 * eps * mag + 64 * eps * std::fabs(exact) + 4 * denorm;

    ld estimate = rv.value;
    char const* what = "results()[k].value()";

    if (p.integ == MULTI && (p.variant == 78 || p.variant == 79))
    {
        // every enabled channel got one lattice: combine the channel means with the recorded weights
        estimate = 0;
        // channel i is selected with probability alpha_i / sum(alpha) (the selector normalises), the
        // point weight uses alpha_i as recorded: unbiased only if the recorded weights sum to one
        ld tot = 0;
        for (ld a : rv.weights) tot += a;
        for (std::size_t b = 0; b != blocks.size(); ++b)
        {
            estimate += rv.weights[blocks[b]] / tot * block_sum[b] / N;
        }
        what = "sum_i alpha_i mean_i(f w)";
    }

    rep.nontrivial = (p.integ != PLAIN);
    if (p.variant == 3 && p.integ != MULTI) rep.probes["high-dimensional"]++;
    rep.probes[p.integ == VEGAS ? (p.variant == 2 ? "adapted-grid" : p.variant == 1 ? "user-grid" : "uniform-grid")
                                : p.integ == MULTI ? (p.variant == 77 ? "rational-weights" : p.variant == 79 ? "floored-user-weights" : "adapted-weights")
                                                   : "plain"]++;

    if (!(std::fabs(estimate - exact) <= tol))
    {
        rep.fail("C01", "lattice-not-exact", key, fmt(
            "%s = %.21Lg, exact integral %.21Lg, difference %.3Lg, tolerance %.3Lg (%llu points, %zu block(s))",
            what, estimate, exact, std::fabs(estimate - exact), tol, (unsigned long long) N, blocks.size()));
    }
}

// ------------------------------------------------------------------------------------------------
// poison: C06

static Plan gen_poison(Rng& r, int tier, std::string const& focus)
{
    Plan p;
    p.scn = "poison";
    GenOpts o;
    o.max_iters = tier ? 8 : 5;
    o.max_calls = tier ? 1000 : 200;
    o.allow_zero_calls = false;
    gen_world(r, p, o);
    if (focus == "C11")
    {
        // non-finite weighted values handed to distributions
        p.acc = 1;
        if (p.dists.empty()) gen_dists(r, p, 1 + static_cast<int>(r.below(2)), false);
    }
    if (p.calls.size() < 2) p.calls.push_back(20 + r.below(100));
    if (p.fk == F_ZERO) p.fk = F_POLY;
    p.cbk = 1;
    if (r.chance(0.25))
    {
        // the built-in callback with a target precision: the stop decision is part of the run that
        // must not depend on whether the poisoned calls returned non-finite values or zero
        p.cbk = 0;
        p.mode = 0;
        static ld const targets[] = {0.5L, 0.2L, 0.1L, 0.03L, 0.01L};
        p.target = r.pick(targets);
        for (auto& c : p.calls) c = std::max<u64>(c, 2);
    }

    u64 mask = 0;
    switch (r.below(5))
    {
    case 0: mask = POISON_NAN; break;
    case 1: mask = POISON_PINF | POISON_NINF; break;
    case 2: mask = POISON_NAN | POISON_PINF | POISON_NINF; break;
    case 3: mask = (p.integ == MULTI) ? POISON_WEIGHT : POISON_NAN; break;
    default: mask = POISON_NAN | POISON_PINF | POISON_NINF | POISON_DIST | (p.integ == MULTI ? POISON_WEIGHT : 0);
    }
    if (p.acc == 0 || p.dists.empty()) mask &= ~static_cast<u64>(POISON_DIST);
    if (mask == 0) mask = POISON_NAN;
    // a huge finite value times a weight above one: the product, not a factor, is what is not finite
    if (p.integ != PLAIN && r.chance(0.2)) mask = r.chance(0.5) ? POISON_HUGE : (mask | POISON_HUGE);

    if (r.chance(0.5))
    {
        // explicit calls: from a single call to every call of an iteration
        u64 const it = r.below(p.calls.size());
        u64 const n = p.calls[it];
        u64 const how = r.below(3);
        u64 const count = (how == 0) ? 1 : (how == 1) ? n : 1 + r.below(n);
        std::vector<int> kinds;
        for (int k = 0; k != 6; ++k)
        {
            if (mask & (1u << k)) kinds.push_back(1 << k);
        }
        for (u64 i = 0; i != count; ++i)
        {
            Fault f;
            f.kind = FLT_POISON;
            f.a = it;
            f.b = (count == n) ? i : r.below(n);
            f.c = static_cast<u64>(r.pick(kinds));
            p.faults.push_back(f);
        }
    }
    else
    {
        Fault f;
        f.kind = FLT_POISON_HASH;
        f.c = mask;
        f.v = static_cast<u64>(4294967296.0 * (r.chance(0.5) ? 0.02 : r.unit() * r.unit()));
        p.faults.push_back(f);
    }

    return p;
}

static bool all_finite(ChkptView const& v, std::string& what)
{
    auto bad = [&](ld x, char const* n, u64 k) {
        if (std::isfinite(x)) return false;
        what = fmt("%s of result %llu is %Lg", n, (unsigned long long) k, x);
        return true;
    };
    for (u64 k = 0; k != v.results.size(); ++k)
    {
        ResultView const& r = v.results[k];
        if (bad(r.sum, "sum", k) || bad(r.sumsq, "sum_of_squares", k)) return false;
        for (ld x : r.adj) if (bad(x, "adjustment datum", k)) return false;
        for (ld x : r.pdf) if (bad(x, "grid boundary", k)) return false;
        for (ld x : r.weights) if (bad(x, "channel weight", k)) return false;
        for (auto const& d : r.dists)
        {
            for (auto const& b : d.bins)
            {
                if (bad(b.sum, "bin sum", k) || bad(b.sumsq, "bin sum_of_squares", k)) return false;
            }
        }
    }
    for (ld x : v.next) if (bad(x, "state for the next iteration", v.results.size())) return false;
    return true;
}

void exec_poison_on(Plan const& p, Report& rep)
{
    Session a(p, rep), b(p, rep);
    a.fresh();
    b.fresh();
    RunCtl ctl = ctl_from_plan(p);
    RunOut const po = a.run(p.calls, ctl);
    ctl.zero_instead = true;
    b.check = true;
    RunOut const zo = b.run(p.calls, ctl);
    if (po.threw || zo.threw || po.killed || zo.killed || po.hang || zo.hang) return;

    ChkptView const pv = a.w->view();
    ChkptView const zv = b.w->view();
    std::string const key = fmt("%s %s%s", integ_name(p.integ), nt_name(p.nt), p.P ? " mpi" : "");

    // (i) the counters
    u64 fired = 0;
    for (u64 k = 0; k != pv.results.size() && k != zv.results.size(); ++k)
    {
        u64 poisoned = 0;
        for (auto const& c : po.ranks)
        {
            for (auto const& rec : c.calls)
            {
                if (rec.iter == k && rec.poison != 0) ++poisoned;
            }
        }
        fired += poisoned;
        ResultView const& r = pv.results[k];
        // a weight poisoned call whose weight is zero-density: f * inf is non-finite as required;
        // a distribution poisoned call returns a finite value and counts as finite
        u64 dist_only = 0;
        for (auto const& c : po.ranks)
        {
            for (auto const& rec : c.calls)
            {
                if (rec.iter == k && rec.poison == POISON_DIST) ++dist_only;
            }
        }
        // (evaluations that are not finite without any help - a finite value times a huge weight that
        // overflows - are in both twin runs: the difference is what the injected ones add)
        ResultView const& z = zv.results[k];
        u64 const natural = z.nz - z.fin;
        if (natural != 0) rep.probes["non-finite-product-without-injection"]++;
        if (r.nz - r.fin != natural + poisoned - dist_only)
        {
            rep.fail("C06", "non-finite-count", key, fmt(
                "iteration %llu: non_zero_calls - finite_calls = %llu, %llu calls were made non-finite (and %llu are not finite in the twin run either)",
                (unsigned long long) k, (unsigned long long) (r.nz - r.fin), (unsigned long long) (poisoned - dist_only),
                (unsigned long long) natural));
            return;
        }
    }

    rep.nontrivial = fired != 0;
    if (fired == 0) return;

    // (iii) everything stays finite
    std::string what;
    if (!all_finite(pv, what))
    {
        rep.fail("C06", "non-finite-number-reported", key, what);
        return;
    }

    // (ii) counters aside, identical to the run in which the same calls returned zero (for a
    // non-finite value handed to a distribution: to the run that handed nothing to it)
    std::string const diff = compare_views(zv, pv, true);
    if (!diff.empty())
    {
        rep.fail("C06", "differs-from-zeroed-run", key, "zeroed run vs poisoned run: " + diff);
    }
}

static void exec_poison(Plan const& p, Report& rep) { exec_poison_on(p, rep); }

// ------------------------------------------------------------------------------------------------
// grid: C07

static Plan gen_grid(Rng& r, int tier, std::string const&)
{
    Plan p;
    p.scn = "grid";
    GenOpts o;
    o.integ = VEGAS;
    o.allow_dists = false;
    o.allow_high_dims = true;
    o.max_calls = tier ? 1500 : 300;
    gen_world(r, p, o);
    p.acc = 0;
    p.dists.clear();
    p.bins = r.chance(0.6) ? 2 + r.below(15) : 2 + r.below(199);
    if (p.dims > 8 && r.chance(0.7)) p.bins = 128;
    u64 const n = 2 + r.below(tier ? 59 : 14);
    p.calls.clear();
    for (u64 i = 0; i != n; ++i) p.calls.push_back(20 + r.below(o.max_calls));
    if (p.dims > 8)
    {
        // many dimensions: keep the run short; float and very many dimensions: one iteration on the
        // uniform grid (see gen_world)
        if (p.calls.size() > 4) p.calls.resize(4);
        if (p.nt == NT_F || p.dims > 24)
        {
            p.calls.resize(1);
            p.grid = 0;
        }
        for (auto& c : p.calls) c = 2 + c % 40;
    }
    static int const fk[] = {F_PEAK, F_PEAK, F_SELECT, F_LADDER, F_SPARSE, F_ZERO, F_POLY};
    p.fk = r.pick(fk);
    p.variant = r.below(4);   // 3: direct probes of vegas_point / refine with hand made data
    if (r.chance(0.05) && p.dims <= 3)
    {
        // squares of the sampled values in the subnormal range of the numeric type
        p.fmag = tiny_exponent(r, p.nt) / 2 - 4;
        if (p.fk == F_LADDER) p.fk = F_PEAK;
    }
    add_extreme_draws(r, p, 0.7);
    return p;
}

static void exec_grid(Plan const& p, Report& rep)
{
    std::string const key = fmt("vegas %s", nt_name(p.nt));

    {
        Session s(p, rep);
        s.fresh();
        RunCtl const ctl = ctl_from_plan(p);
        s.run(p.calls, ctl);
        ChkptView const v = s.w->view();
        oracle_c07_share(p, v, rep);
    }

    rep.nontrivial = true;

    // direct construction of vegas_point on random numbers that contain exactly 1 (what other
    // standard libraries' generate_canonical can return)
    Rng r(p.fseed);
    std::vector<ld> const grid = (p.grid == 1) ? make_world(p.nt, p.eng)->first_state_input(p) : std::vector<ld>();
    std::vector<ld> g = grid;
    if (g.empty())
    {
        for (u64 d = 0; d != p.dims; ++d)
        {
            for (u64 b = 0; b != p.bins + 1; ++b) g.push_back(round_to(p.nt, static_cast<ld>(b) / p.bins));
        }
    }

    for (int t = 0; t != 4; ++t)
    {
        std::vector<ld> u;
        for (u64 d = 0; d != p.dims; ++d)
        {
            switch (r.below(4))
            {
            case 0: u.push_back(1.0L); break;
            case 1: u.push_back(0.0L); break;
            case 2: u.push_back(round_to(p.nt, 1.0L - eps_of(p.nt) / 2)); break;
            default: u.push_back(round_to(p.nt, r.unit())); break;
            }
        }
        VegasPointProbe const pr = probe_vegas_point(p.nt, g, p.bins, p.dims, u);
        rep.probes["u-equals-one"]++;
        for (u64 d = 0; d != p.dims; ++d)
        {
            if (pr.bins[d] >= p.bins)
            {
                rep.fail("C07", "bin-out-of-range", key, fmt("vegas_point on u=%.21Lg: bin %llu of %llu", u[d],
                    (unsigned long long) pr.bins[d], (unsigned long long) p.bins));
                return;
            }
            ld const left = g[d * (p.bins + 1) + pr.bins[d]], right = g[d * (p.bins + 1) + pr.bins[d] + 1];
            if (!(pr.x[d] >= left && pr.x[d] <= right) || !(pr.x[d] >= 0 && pr.x[d] <= 1))
            {
                rep.fail("C07", "point-outside-bin", key, fmt("vegas_point on u=%.21Lg: x=%.21Lg not in [%.21Lg, %.21Lg]",
                    u[d], pr.x[d], left, right));
                return;
            }
        }
    }

    if (p.variant == 3)
    {
        // refinement fed directly with hand made data: single non-zero bin, values spanning the
        // exponent range, all zero
        Plan q = p;
        q.dims = 1;
        std::vector<ld> g1(g.begin(), g.begin() + p.bins + 1);
        std::vector<ld> data(p.bins, 0.0L);
        int const emax = (p.nt == NT_F) ? 30 : 300;
        switch (r.below(3))
        {
        case 0: data[r.below(p.bins)] = 1; break;
        case 1: for (auto& x : data) x = std::ldexp(1.0L, static_cast<int>(r.below(2 * emax)) - emax); break;
        default: break;
        }
        std::vector<ld> const n = probe_refine_pdf(p.nt, g1, p.bins, 1, p.alpha, data);
        ChkptView v;
        v.integ = VEGAS;
        v.alpha = round_to(p.nt, p.alpha);
        ResultView rv;
        rv.pbins = p.bins;
        rv.pdims = 1;
        rv.pdf = g1;
        rv.adj = data;
        rv.refined = n;
        v.results.push_back(rv);
        RunOut none;
        none.base = 0;
        none.results = 0;
        oracle_c07_invariants(q, none, v, rep);
        oracle_c07_share(q, v, rep);
        rep.probes["refine-direct"]++;
    }
}

// ------------------------------------------------------------------------------------------------
// weights: C08

static Plan gen_weights(Rng& r, int tier, std::string const&)
{
    Plan p;
    p.scn = "weights";
    GenOpts o;
    o.integ = MULTI;
    o.allow_dists = false;
    o.max_calls = tier ? 800 : 200;
    gen_world(r, p, o);
    p.acc = 0;
    p.dists.clear();
    p.chan = r.chance(0.7) ? 1 + r.below(8) : 1 + r.below(40);
    p.minw = r.chance(0.4) ? 0.0L : static_cast<ld>(static_cast<float>(0.95 * r.unit() / p.chan));
    u64 const n = 2 + r.below(tier ? 39 : 10);
    p.calls.clear();
    for (u64 i = 0; i != n; ++i) p.calls.push_back(10 + r.below(o.max_calls));
    static int const fk[] = {F_PEAK, F_POLY, F_SELECT, F_SELECT, F_LADDER, F_SPARSE, F_ZERO, F_SIGN};
    p.fk = r.pick(fk);
    p.variant = r.below(3);   // 2: direct probe of the refinement function
    if (r.chance(0.05))
    {
        // adjustment data within a small factor of the largest finite number (sums of them overflow)
        int const emax = (p.nt == NT_F) ? 127 : (p.nt == NT_D) ? 1023 : 16383;
        p.fk = F_POLY;
        p.jexp = 0;
        for (auto& c : p.calls) c = 10 + c % 60;
        p.fmag = (emax - 24) / 2 - static_cast<int>(r.below(3));
        p.variant = 0;
    }
    return p;
}

static void exec_weights(Plan const& p, Report& rep)
{
    {
        Session s(p, rep);
        s.fresh();
        RunCtl const ctl = ctl_from_plan(p);
        s.run(p.calls, ctl);
    }
    rep.nontrivial = true;

    if (p.variant == 2)
    {
        Rng r(p.fseed);
        std::vector<ld> w = make_user_weights(p);
        ld tot = 0;
        for (auto& x : w)
        {
            x = round_to(p.nt, x);
            tot += x;
        }
        for (auto& x : w) x = round_to(p.nt, x / tot);
        std::vector<ld> data(p.chan, 0.0L);
        int const emax = (p.nt == NT_F) ? 30 : 200;
        switch (r.below(4))
        {
        case 0: data[r.below(p.chan)] = 1; break;
        case 1: for (auto& x : data) x = std::ldexp(1.0L, static_cast<int>(r.below(2 * emax)) - emax); break;
        case 2: for (auto& x : data) x = round_to(p.nt, r.unit()); break;
        default: break;
        }
        ChkptView v;
        v.integ = MULTI;
        v.beta = round_to(p.nt, p.beta);
        v.minw = round_to(p.nt, p.minw);
        ResultView rv;
        rv.weights = w;
        rv.adj = data;
        rv.refined = probe_refine_weights(p.nt, w, data, p.minw, p.beta);
        v.results.push_back(rv);
        oracle_c08(p, v, rep);
        rep.probes["refine-direct"]++;
    }
}

// ------------------------------------------------------------------------------------------------
// select: C09

static Plan gen_select(Rng& r, int tier, std::string const&)
{
    Plan p;
    p.scn = "select";
    GenOpts o;
    o.integ = MULTI;
    o.eng_class = 1;
    o.allow_dists = false;
    gen_world(r, p, o);
    p.acc = 0;
    p.dists.clear();
    p.eng = (p.nt == NT_F && r.chance(0.4)) ? E_SCRIPT32 : E_SCRIPT64;
    p.chan = r.chance(0.7) ? 1 + r.below(8) : 1 + r.below(40);
    p.wts = 1;
    p.minw = 0;
    p.dims = 1 + r.below(2);
    p.mapd = 0;
    p.calls.assign(1, tier ? 400 : 120);
    p.fk = F_POLY;
    p.variant = r.below(4);
    if (p.variant == 3)
    {
        // standard engines (some with min() != 0): a boundary is placed right next to a number the engine
        // really produces, once above and once below it
        static int const eng[] = {E_MINSTD0, E_MINSTD, E_KNUTH_B, E_KNUTH_B, E_MT19937, E_RANLUX24_BASE, E_RANLUX48, E_MT19937_64};
        p.eng = r.pick(eng);
        p.chan = 2;
        p.wts = 0;
        p.dims = 1;
        p.calls.assign(1, 40 + r.below(40));
        p.faults.clear();
        p.aux.assign(1, r.next());
    }
    return p;
}

// the canonical number libstdc++'s generate_canonical forms from the raw outputs of a standard engine
// (the last m of the four raw outputs before the integrand was entered; oldest first)
static bool canonical_std(int nt, int eng, u64 const raws[4], ld& out)
{
    ld mn = 0, mx = 0;
    switch (eng)
    {
    case E_MINSTD0: case E_MINSTD: case E_KNUTH_B: mn = 1; mx = 2147483646.0L; break;
    case E_MT19937: mx = 4294967295.0L; break;
    case E_MT19937_64: mx = 18446744073709551615.0L; break;
    case E_RANLUX24_BASE: case E_RANLUX24: mx = 16777215.0L; break;
    case E_RANLUX48_BASE: case E_RANLUX48: mx = 281474976710655.0L; break;
    default: return false;
    }
    unsigned const digits = (nt == NT_F) ? 24 : (nt == NT_D) ? 53 : 64;
    ld const R = mx - mn + 1.0L;
    std::size_t const log2r = static_cast<std::size_t>(std::log(R) / std::log(2.0L));
    std::size_t const m = std::max<std::size_t>(1, (digits + log2r - 1) / log2r);
    if (m > 4) return false;
    ld sum = 0, tmp = 1;
    for (std::size_t k = 0; k != m; ++k)
    {
        ld const v = round_to(nt, static_cast<ld>(raws[4 - m + k]) - mn);
        sum = round_to(nt, sum + round_to(nt, v * tmp));
        tmp = round_to(nt, tmp * R);
    }
    out = round_to(nt, sum / tmp);
    return out >= 0 && out < 1;
}

// cumulative boundaries as the numeric type forms them
static std::vector<ld> cumulative_T(int nt, std::vector<ld> const& w)
{
    std::vector<ld> s;
    ld acc = 0;
    for (ld x : w)
    {
        acc = round_to(nt, acc + x);
        s.push_back(acc);
    }
    for (auto& x : s) x = round_to(nt, x / s.back());
    // the last division makes the last entry exactly one, as in the library
    return s;
}

static void exec_select_std(Plan const& p, Report& rep)
{
    std::string const key = fmt("multi_channel %s %s", nt_name(p.nt), engine_name(p.eng));
    rep.nontrivial = true;
    RunCtl const ctl = ctl_from_plan(p);

    // first pass: which numbers does the engine give to the selector?
    std::vector<ld> us;
    {
        Report scratch;
        Session s(p, scratch);
        s.check = false;
        s.fresh();
        RunOut const o = s.run(p.calls, ctl);
        if (o.threw || o.killed || o.results == 0) return;
        for (auto const& rec : o.ranks[0].calls)
        {
            ld u = 0;
            if (!canonical_std(p.nt, p.eng, rec.raws, u)) return;
            us.push_back(u);
        }
    }
    if (us.empty()) return;

    ld const eps = eps_of(p.nt);
    // a call whose number is not small (the integer weights resolve 2^-63 absolutely)
    std::size_t c = static_cast<std::size_t>(p.aux.empty() ? 0 : p.aux[0] % us.size());
    for (std::size_t tries = 0; tries != us.size() && !(us[c] > 0.25L && us[c] < 0.99L); ++tries) c = (c + 1) % us.size();
    ld const u = us[c];
    if (!(u > 0.25L && u < 0.99L)) return;

    for (int side = 0; side != 2; ++side)
    {
        // the boundary between the two channels 64 eps above (below) the number of call c: the call must
        // select channel 0 (1)
        ld const b = (side == 0) ? u * (1 + 64 * eps) : u * (1 - 64 * eps);
        Plan q = p;
        q.variant = 77;
        q.wts = 1;
        q.minw = 0;
        q.aux.assign(2, 0);
        q.aux[0] = static_cast<u64>(std::llroundl(std::ldexp(b, 63)));
        q.aux[1] = (1ULL << 63) - q.aux[0];
        Session s(q, rep);
        s.fresh();
        RunOut const o = s.run(q.calls, ctl_from_plan(q));
        if (o.threw || o.killed || o.results == 0) return;
        if (c >= o.ranks[0].calls.size()) return;
        CallRec const& rec = o.ranks[0].calls[c];
        ld u2 = 0;
        if (!canonical_std(p.nt, p.eng, rec.raws, u2) || u2 != u)
        {
            // the weights do not move the stream (C10): the call sees the same raw outputs
            rep.fail("C09", "selector-number-moved", key, fmt("call %zu got another number after the weights changed (%.21Lg, %.21Lg)", c, u, u2));
            return;
        }
        u64 const want = (side == 0) ? 0 : 1;
        rep.probes["boundary-next-to-an-engine-output"]++;
        if (rec.channel != want)
        {
            rep.fail("C09", "outside-interval", key, fmt(
                "call %zu: the engine's outputs give the canonical number %.21Lg, the boundary between the two channels is at %.21Lg, channel %u was selected",
                c, u, b, rec.channel));
            return;
        }
    }
}

static void exec_select(Plan const& p, Report& rep)
{
    if (p.variant == 3 && p.eng >= 2 && p.eng != E_SCRIPT14)
    {
        exec_select_std(p, rep);
        return;
    }
    std::string const key = fmt("multi_channel %s", nt_name(p.nt));
    std::unique_ptr<IWorld> w0 = make_world(p.nt, p.eng);
    w0->fresh(p);
    ChkptView const v0 = w0->view();
    std::vector<ld> const alpha = v0.next;   // normalised weights the first iteration will use
    std::vector<ld> const cum = cumulative_T(p.nt, alpha);
    ld const eps = eps_of(p.nt);

    // values to force: 0, largest below 1, every boundary, its neighbours, interval mid points
    std::vector<ld> vals;
    vals.push_back(0.0L);
    vals.push_back(round_to(p.nt, 1.0L - eps / 2));
    for (std::size_t i = 0; i != cum.size(); ++i)
    {
        ld const c = cum[i];
        ld const step = eps * std::max(c, std::ldexp(1.0L, -30)) / 2;
        for (int k = -2; k <= 2; ++k)
        {
            ld const x = round_to(p.nt, c + k * step);
            if (x >= 0 && x < 1) vals.push_back(x);
        }
        ld const lo = i ? cum[i - 1] : 0.0L;
        ld const mid = round_to(p.nt, 0.5L * (lo + c));
        if (mid >= 0 && mid < 1) vals.push_back(mid);
    }

    auto check = [&](ld u, u64 sel, char const* how) {
        if (sel >= alpha.size())
        {
            rep.fail("C09", "invalid-channel", key, fmt("%s: selector %.21Lg gives channel %llu of %zu", how, u,
                (unsigned long long) sel, alpha.size()));
            return false;
        }
        if (alpha[sel] == 0)
        {
            bool leading = (u == 0);
            rep.fail("C09", "disabled-channel-selected", leading ? "canonical 0 with leading zero weight" : key,
                fmt("%s: selector %.21Lg gives channel %llu whose weight is zero", how, u, (unsigned long long) sel));
            return false;
        }
        ld tot = 0;
        for (ld a : alpha) tot += a;
        ld acc = 0, lo = 0, hi = 0;
        for (u64 j = 0; j <= sel; ++j)
        {
            lo = acc;
            acc += alpha[j];
            hi = acc;
        }
        lo /= tot;
        hi /= tot;
        // the cumulative sums carry a relative error of a few eps per term: the ends of the interval
        // are uncertain relative to their own magnitude (an absolute tolerance would hide channels
        // whose whole interval is tiny)
        ld const tol = (2 + alpha.size()) * eps;
        if (!(u >= lo * (1 - tol) && u <= hi * (1 + tol)))
        {
            rep.fail("C09", "outside-interval", key, fmt("%s: selector %.21Lg gives channel %llu covering [%.21Lg, %.21Lg]",
                how, u, (unsigned long long) sel, lo, hi));
            return false;
        }
        return true;
    };

    // fed to the selector type directly ...
    for (ld u : vals)
    {
        u64 const raw = static_cast<u64>(std::ldexp(u, 64));
        ld const back = canonical_from_raw64(p.nt, raw);
        u64 const sel = probe_select(p.nt, alpha, raw);
        if (back == 0) rep.probes["canonical-zero"]++;
        if (!check(back, sel, "discrete_distribution")) return;
    }
    rep.probes["boundary-values-forced"] += vals.size();

    // the same weights scaled down until their total is subnormal: unnormalised weight vectors of any
    // magnitude are admissible (precision is lost, so only validity and coarse containment are checked)
    if (p.variant != 1)
    {
        int const minexp = (p.nt == NT_F) ? -126 : (p.nt == NT_D) ? -1022 : -16382;
        ld const scale = std::ldexp(1.0L, minexp - 2 - static_cast<int>(mix2(p.fseed, 17) % 6));
        std::vector<ld> tiny;
        ld tot = 0;
        for (ld a : alpha)
        {
            tiny.push_back(round_to(p.nt, a * scale));
            tot += tiny.back();
        }
        if (tot > 0)
        {
            rep.probes["subnormal-weight-total"]++;
            ld acc = 0;
            for (std::size_t i = 0; i != tiny.size(); ++i)
            {
                ld const lo = acc / tot;
                acc += tiny[i];
                ld const hi = acc / tot;
                if (tiny[i] == 0) continue;
                ld const u = round_to(p.nt, 0.5L * (lo + hi));
                if (!(u >= 0 && u < 1)) continue;
                u64 const raw = static_cast<u64>(std::ldexp(u, 64));
                ld const back = canonical_from_raw64(p.nt, raw);
                u64 const sel = probe_select(p.nt, tiny, raw);
                if (sel >= tiny.size() || tiny[sel] == 0)
                {
                    rep.fail("C09", sel >= tiny.size() ? "invalid-channel" : "disabled-channel-selected",
                        "weights with subnormal total", fmt(
                        "discrete_distribution on weights with total %.3Lg: selector %.21Lg gives channel %llu of %zu",
                        tot, back, (unsigned long long) sel, tiny.size()));
                    return;
                }
                ld l2 = 0, a2 = 0;
                for (u64 j = 0; j <= sel; ++j)
                {
                    l2 = a2;
                    a2 += tiny[j];
                }
                if (!(back >= l2 / tot - 0.01L && back <= a2 / tot + 0.01L))
                {
                    rep.fail("C09", "outside-interval", "weights with subnormal total", fmt(
                        "discrete_distribution on weights with total %.3Lg: selector %.21Lg gives channel %llu",
                        tot, back, (unsigned long long) sel));
                    return;
                }
            }
        }
    }

    // ... and inside a run: the selector draw of call c is the (d+1)-th number of the call
    Plan q = p;
    RunCtl ctl = ctl_from_plan(q);
    u64 const per_call = p.dims + 1;
    u64 const usage = (p.eng == E_SCRIPT32 && p.nt != NT_F) ? 2 : 1;
    u64 const ncalls = p.calls[0];
    // in a seeded order and more than once: the selection is a function of the number alone, whatever
    // was selected before it
    std::vector<ld> seq;
    {
        Rng sr(mix2(p.fseed, 4242));
        while (seq.size() < ncalls)
        {
            std::vector<ld> round(vals);
            for (std::size_t k = round.size(); k > 1; --k) std::swap(round[k - 1], round[sr.below(k)]);
            seq.insert(seq.end(), round.begin(), round.end());
        }
    }
    for (u64 c = 0; c != ncalls; ++c)
    {
        if (usage != 1) break;
        Fault f;
        f.kind = FLT_RNG_FORCE;
        f.a = c * per_call + p.dims;
        ld const u = seq[c];
        f.v = (p.eng == E_SCRIPT64) ? static_cast<u64>(std::ldexp(u, 64))
                                    : (static_cast<u64>(std::ldexp(u, 32)) << 32);
        ctl.forced.push_back(f);
    }

    Session s(p, rep);
    s.fresh();
    RunOut const out = s.run(p.calls, ctl);
    rep.nontrivial = true;
    if (out.threw || out.killed || out.results == 0) return;

    if (p.eng == E_SCRIPT64)
    {
        for (auto const& rec : out.ranks[0].calls)
        {
            ld const u = canonical_from_raw64(p.nt, rec.last_raw);
            if (!check(u, rec.channel, "multi_channel")) return;
            // the same number given to a fresh selector
            u64 const alone = probe_select(p.nt, alpha, rec.last_raw);
            if (alone != rec.channel)
            {
                rep.fail("C09", "selection-depends-on-history", key, fmt(
                    "selector %.21Lg gives channel %llu inside the iteration and channel %llu on its own", u,
                    (unsigned long long) rec.channel, (unsigned long long) alone));
                return;
            }
            rep.probes["selection-compared-with-fresh-selector"]++;
        }
    }

    // probabilities: a complete lattice of selector values gives each channel n * alpha_i +- 1
    if (p.variant == 1 && p.eng == E_SCRIPT64)
    {
        u64 const n = 64 + mix2(p.fseed, 3) % 400;
        std::vector<u64> count(alpha.size(), 0);
        for (u64 i = 0; i != n; ++i)
        {
            u64 const raw = static_cast<u64>((static_cast<unsigned __int128>(2 * i + 1) << 63) / n);
            u64 const sel = probe_select(p.nt, alpha, raw);
            if (sel < count.size()) ++count[sel];
        }
        ld tot = 0;
        for (ld a : alpha) tot += a;
        for (std::size_t i = 0; i != alpha.size(); ++i)
        {
            ld const want = n * alpha[i] / tot;
            if (!(std::fabs(static_cast<ld>(count[i]) - want) <= 1.0L + 4 * alpha.size() * eps * n))
            {
                rep.fail("C09", "selection-probability", key, fmt(
                    "lattice of %llu selector values: channel %zu selected %llu times, weight says %.6Lg",
                    (unsigned long long) n, i, (unsigned long long) count[i], want));
                return;
            }
        }
        rep.probes["selector-lattice"]++;
    }
}

// ------------------------------------------------------------------------------------------------
// usage: C10 with engines of odd ranges

static Plan gen_usage(Rng& r, int, std::string const&)
{
    Plan p;
    p.scn = "usage";
    p.nt = static_cast<int>(r.below(3));
    p.integ = PLAIN;
    p.eng = E_SCRIPT64;
    p.aux.clear();
    // range sizes R = hi - lo + 1: 2^k, 2^k +- 1, small odd ones
    u64 R;
    u64 const k = 1 + r.below(64);
    switch (r.below(5))
    {
    case 0: R = (k == 64) ? 0 : (1ULL << k); break;             // 0 encodes 2^64
    case 1: R = (k >= 63) ? (1ULL << 62) + 1 : (1ULL << k) + 1; break;
    case 2: R = (k == 64) ? ~0ULL : (1ULL << k) - 1; if (R < 2) R = 3; break;
    case 3:
    {
        static u64 const odd[] = {3, 5, 6, 7, 10, 2147483646ULL, 2147483647ULL, 4294967295ULL};
        R = r.pick(odd);
        break;
    }
    default: R = 2 + r.below(1ULL << (1 + r.below(62))); break;
    }
    u64 lo = (R == 0) ? 0 : (r.chance(0.5) ? 0 : r.below(1000));
    if (R != 0 && lo > ~0ULL - (R - 1)) lo = 0;   // keep lo + R - 1 inside 64 bits
    u64 const hi = (R == 0) ? ~0ULL : lo + (R - 1);
    p.aux.push_back(lo);
    p.aux.push_back(hi);
    return p;
}

static void exec_usage(Plan const& p, Report& rep)
{
    u64 predicted = 0, mn = 0, mx = 0;
    probe_usage(p.nt, p.aux[0], p.aux[1], 64, predicted, mn, mx);
    rep.nontrivial = true;
    ++rep.runs;
    rep.hash.u64(predicted);
    rep.hash.u64(mn);
    rep.hash.u64(mx);
    u64 const R = p.aux[1] - p.aux[0] + 1;   // 0 means 2^64
    bool const pow2 = (R & (R - 1)) == 0;
    int lg = 0;
    if (pow2)
    {
        u64 t = R;
        while (t > 1)
        {
            t >>= 1;
            ++lg;
        }
        if (R == 0) lg = 64;
    }
    std::string const key = pow2 ? fmt("range=2^%d type=%s", lg, nt_name(p.nt))
                                 : fmt("range=%llu type=%s", (unsigned long long) R, nt_name(p.nt));
    if (pow2) rep.probes["power-of-two-range"]++;

    if (mn != mx)
    {
        rep.fail("C10", "usage-not-constant", key, fmt("one canonical number cost between %llu and %llu raw outputs",
            (unsigned long long) mn, (unsigned long long) mx));
        return;
    }

    if (mn != predicted)
    {
        rep.fail("C10", "usage-mismatch", key, fmt(
            "engine range [%llu, %llu]: one canonical number costs %llu raw outputs, random_number_usage says %llu",
            (unsigned long long) p.aux[0], (unsigned long long) p.aux[1], (unsigned long long) mn,
            (unsigned long long) predicted));
    }
}

// ------------------------------------------------------------------------------------------------
// bins: C11

static Plan gen_bins(Rng& r, int tier, std::string const&)
{
    Plan p;
    p.scn = "bins";
    GenOpts o;
    o.max_calls = tier ? 600 : 150;
    o.max_iters = 3;
    o.allow_zero_calls = false;
    gen_world(r, p, o);
    p.acc = 1;
    bool const probe = r.chance(0.5);
    gen_dists(r, p, 1 + static_cast<int>(r.below(3)), probe);
    if (probe)
    {
        // attribution probes: few calls, values are distinct powers of two
        for (auto& c : p.calls) c = 1 + r.below(16);
        if (p.nt == NT_F)
        {
            // keep 2^19 / (weight * area) and its square inside float range
            p.jexp = 0;
        }
        // nice (dyadic) parameters make exactly representable edges unambiguous
        for (auto& d : p.dists)
        {
            if (r.chance(0.6))
            {
                d.xmin = -1;
                d.xmax = 1;
                d.bx = 1ULL << r.below(4);
                d.ymin = 0;
                d.ymax = 2;
                d.by = d.two_d ? (1ULL << r.below(3)) : 1;
            }
        }
    }
    p.fk = r.chance(0.8) ? F_POLY : F_SIGN;
    p.cbk = 1;
    return p;
}

static void exec_bins(Plan const& p, Report& rep)
{
    Session s(p, rep);
    s.fresh();
    RunCtl const ctl = ctl_from_plan(p);
    RunOut const o = s.run(p.calls, ctl);
    rep.nontrivial = true;

    // a parameter scan: the program keeps one checkpoint object and copy-assigns the checkpoint of
    // every run over it; the runs have the same numbers of bins and other ranges. What the kept object
    // reports afterwards is the run it was assigned from.
    if (!p.dists.empty() && !o.threw && !o.killed && !o.hang && o.results == p.calls.size() && (mix2(p.fseed, 5150) % 3) == 0)
    {
        Plan q = p;
        for (auto& d : q.dists)
        {
            ld const wx = d.xmax - d.xmin;
            d.xmin = static_cast<float>(d.xmin - 0.25L * wx);
            d.xmax = static_cast<float>(d.xmax + 0.5L * wx);
            if (d.two_d)
            {
                ld const wy = d.ymax - d.ymin;
                d.ymin = static_cast<float>(d.ymin + 0.125L * wy);
                d.ymax = static_cast<float>(d.ymax + 2 * wy);
            }
        }
        Report scratch;
        Session kept(q, scratch);
        kept.check = false;
        kept.fresh();
        RunOut const o2 = kept.run(q.calls, ctl_from_plan(q));
        if (!o2.threw && !o2.killed && !o2.hang && o2.results == o.results && kept.w->assign_from(*s.w))
        {
            rep.probes["checkpoint-copy-assigned-over-another"]++;
            std::string const diff = compare_views(s.w->view(), kept.w->view(), false);
            if (!diff.empty() || kept.w->text() != s.w->text())
            {
                rep.fail("C11", "copy-assigned-result-differs", fmt("%s %s", integ_name(p.integ), nt_name(p.nt)),
                    diff.empty() ? std::string("the text of the assigned checkpoint differs") : diff);
            }
        }
    }
}

// ------------------------------------------------------------------------------------------------
// protocol: C12

static Plan gen_protocol(Rng& r, int tier, std::string const&)
{
    Plan p;
    p.scn = "protocol";
    GenOpts o;
    o.max_calls = tier ? 500 : 120;
    o.max_iters = 7;
    o.allow_zero_calls = false;
    gen_world(r, p, o);
    while (p.calls.size() < 2) p.calls.push_back(2 + r.below(100));
    for (auto& c : p.calls) c = std::max<u64>(c, 2);
    p.variant = r.below(4);

    switch (p.variant)
    {
    case 0:
        // scripted user callback stopping at a seeded position (or never)
        p.cbk = 1;
        p.stop = r.chance(0.25) ? -1 : static_cast<std::int64_t>(1 + r.below(p.calls.size()));
        break;
    case 1:
    {
        // built-in callback, target zero, integrands that make the stop rule meet 0 and NaN
        p.cbk = 0;
        p.mode = static_cast<int>(r.below(4));
        p.target = 0;
        static int const fk[] = {F_ZERO, F_CONST, F_SIGN, F_SPARSE, F_POLY, F_PEAK};
        p.fk = r.pick(fk);
        if (r.chance(0.3))
        {
            Fault f;
            f.kind = FLT_POISON_HASH;
            f.c = POISON_NAN | POISON_PINF;
            f.v = static_cast<u64>(4294967296.0 * (r.chance(0.3) ? 0.999 : 0.1));
            p.faults.push_back(f);
        }
        break;
    }
    default:
        // built-in callback, positive target placed between two cumulative relative errors;
        // aux[0] picks the gap, variant 3 resumes from a checkpoint that already holds results
        p.cbk = 0;
        p.mode = static_cast<int>(r.below(2)) * 1;   // silent or writing (printing is C20's)
        if (p.fk == F_CONST) p.fk = F_PEAK;
        // identically zero integrands and integrands whose support the first iterations miss: the
        // relative error is 0/0 there and must not count as "target reached"
        if (r.chance(0.15)) p.fk = F_ZERO;
        else if (r.chance(0.2))
        {
            p.fk = F_SPARSE;
            p.fq = static_cast<u64>(4294967296.0 * 0.02);
            for (auto& c : p.calls) c = 2 + c % 30;
        }
        p.aux.assign(1, r.next() >> 8);
        // an empty or one-call iteration inside the list: its result carries no information and must
        // neither trigger nor prevent a stop by itself
        if (r.chance(0.3)) p.calls[r.below(p.calls.size())] = r.below(2);
        break;
    }

    return p;
}

static void exec_protocol(Plan const& p, Report& rep)
{
    std::string const key = fmt("%s %s", integ_name(p.integ), nt_name(p.nt));
    rep.nontrivial = true;

    if (p.variant == 0)
    {
        Session s(p, rep);
        s.fresh();
        RunCtl const ctl = ctl_from_plan(p);
        RunOut const out = s.run(p.calls, ctl);
        if (out.threw || out.killed) return;
        u64 const want = (p.stop >= 0) ? std::min<u64>(p.stop, p.calls.size()) : p.calls.size();
        if (out.results != want)
        {
            rep.fail("C12", "stop-position", key, fmt("user callback returns false at invocation %lld: run made %llu iterations, expected %llu",
                (long long) p.stop, (unsigned long long) out.results, (unsigned long long) want));
        }
        if (p.stop >= 0 && static_cast<u64>(p.stop) < p.calls.size()) rep.probes["user-stop"]++;
        return;
    }

    RunCtl ctl = ctl_from_plan(p);
    ctl.filename = "/hepsim/protocol.chkpt";
    fs().reset();

    if (p.variant == 1)
    {
        Session s(p, rep);
        s.fresh();
        RunOut const out = s.run(p.calls, ctl);
        if (out.threw || out.killed) return;
        rep.probes[p.fk == F_ZERO ? "zero-integrand" : p.fk == F_CONST ? "constant-integrand" : "other-integrand"]++;
        if (out.results != p.calls.size())
        {
            std::string k = key;
            if (p.fk == F_ZERO) k = "target 0, identically zero integrand";
            else if (p.fk == F_CONST) k = "target 0, constant integrand";
            else
            {
                ChkptView const v = s.w->view();
                bool nonfinite_only = !v.results.empty() && v.results.back().fin == 0 && v.results.back().nz != 0;
                bool zero_only = !v.results.empty() && v.results.back().nz == 0;
                if (nonfinite_only) k = "target 0, all evaluations non-finite";
                else if (zero_only) k = "target 0, identically zero integrand";
            }
            rep.fail("C12", "stops-early-without-target", k, fmt(
                "built-in callback with target 0: run made %llu of %zu iterations", (unsigned long long) out.results,
                p.calls.size()));
        }
        return;
    }

    // positive target: a first pass with a user callback that never stops records, after every
    // iteration, the relative error of the variance weighted combination (a) as the library's public
    // accumulate forms it in the numeric type - bit for bit what the built-in callback compares with the
    // target - and (b) by an independent long double implementation
    std::vector<ld> rho, rho_lib, vcond;
    ChkptView lib_view;
    ld unc = 0;
    {
        Plan q = p;
        q.cbk = 1;
        q.stop = -1;
        Report scratch;
        Session s(q, scratch);
        s.check = false;
        s.fresh();
        RunCtl c2 = ctl_from_plan(q);
        RunOut const out = s.run(q.calls, c2);
        if (out.threw || out.killed) return;
        lib_view = s.w->view();
        rho = reference_rel_errors(s.w->view());
        unc = rel_error_uncertainty(s.w->view(), p.nt);
        vcond = reference_value_conditions(s.w->view());
        rho_lib = s.w->combined_rel_errors();
    }

    if (rho_lib.size() != rho.size() || rho.empty()) return;

    // (b) checks (a): the combination itself, wherever it is well conditioned
    for (std::size_t k = 0; k != rho.size(); ++k)
    {
        bool const fa = std::isfinite(rho_lib[k]), fb = std::isfinite(rho[k]);
        // (the estimates of the iterations may cancel in the combination: its own condition number)
        ld const vc = (k < vcond.size()) ? vcond[k] : 1e30L;
        // (an iteration of one call has no variance: with it the combination is not a number, and that
        // is what the documented formula says)
        bool defined = true;
        for (std::size_t i = 0; i <= k && i < lib_view.results.size(); ++i)
        {
            ResultView const& r = lib_view.results[i];
            if (r.fin == 0) continue;
            ld const N = r.calls;
            ld const var = (r.calls >= 2) ? (r.sumsq - r.sum * r.sum / N) / N / (N - 1) : 0.0L;
            if (!(var > 0) || !std::isfinite(var) || !std::isfinite(1 / var)) defined = false;
            // (the numeric type has to be able to hold the variance, its inverse and what they are made of)
            else if (!in_exponent_range(p.nt, var) || !in_exponent_range(p.nt, 1 / var) || !in_exponent_range(p.nt, r.sumsq / N) ||
                !in_exponent_range(p.nt, (r.sum / N) * (r.sum / N)) || !in_exponent_range(p.nt, (r.sum / N) / var))
            {
                defined = false;
            }
        }
        if (defined && fb && !fa && rho[k] > 0 && rho[k] < 1e6L && unc < 0.25L && vc * eps_of(p.nt) < 1e-3L)
        {
            // the combination exists (finite positive variances, estimates that do not cancel) and the
            // library reports none
            rep.fail("C12", "combination", key, fmt(
                "after iteration %zu the library's variance weighted combination has relative error %.21Lg, independent reference %.21Lg",
                k, rho_lib[k], rho[k]));
            return;
        }
        if (fa && fb && rho[k] > 0 && unc < 0.25L && vc * eps_of(p.nt) < 1e-3L &&
            !(std::fabs(rho_lib[k] - rho[k]) <= (unc + 64 * eps_of(p.nt) * (1 + vc)) * rho[k]))
        {
            rep.fail("C12", "combination", key, fmt(
                "after iteration %zu the variance weighted combination has relative error %.21Lg, independent reference %.21Lg",
                k, rho_lib[k], rho[k]));
            return;
        }
    }

    // targets: between neighbouring values, below the smallest, above the largest, and exactly equal to
    // one of the values (the run must stop when the error is not larger than the target)
    std::vector<ld> sorted;
    for (ld x : rho_lib)
    {
        if (x == x && x > 0 && std::isfinite(x)) sorted.push_back(x);
    }
    if (sorted.size() != rho_lib.size()) rep.probes["relative-error-not-a-number"]++;
    std::sort(sorted.begin(), sorted.end());
    std::vector<ld> targets;
    if (sorted.empty())
    {
        targets = {0.5L, 0.1L, 0.001L};
    }
    else
    {
        targets.push_back(round_to(p.nt, sorted.front() / 2));
        for (std::size_t i = 0; i + 1 < sorted.size(); ++i)
        {
            targets.push_back(round_to(p.nt, std::sqrt(sorted[i] * sorted[i + 1])));
        }
        targets.push_back(round_to(p.nt, std::min<ld>(sorted.back() * 2, 1e30L)));
        for (ld x : sorted) targets.push_back(x);   // ties
    }
    ld const target = targets[p.aux[0] % targets.size()];
    if (!(target > 0)) return;
    bool tie = false;
    for (ld x : rho_lib) tie = tie || (x == target);
    if (tie) rep.probes["target-equals-an-error-exactly"]++;

    Plan q = p;
    q.target = target;
    RunCtl c3 = ctl_from_plan(q);
    c3.filename = ctl.filename;
    Session s(q, rep);
    s.fresh();

    u64 done = 0;

    if (p.variant == 3 && q.calls.size() > 1)
    {
        // resume from a checkpoint that already holds some results (made with a user callback that
        // never stops, so it may already meet the target)
        u64 const pre = 1 + (p.aux[0] / 7) % (q.calls.size() - 1);
        RunCtl cu = c3;
        cu.cbk = 1;
        cu.user_stop = ~0ULL;
        std::vector<u64> first(q.calls.begin(), q.calls.begin() + pre);
        RunOut const o1 = s.run(first, cu);
        if (o1.threw || o1.killed) return;
        if (!s.reload("protocol resume")) return;
        done = pre;
        rep.probes["resumed-with-results"]++;
        if (rho_lib[pre - 1] <= target) rep.probes["resumed-checkpoint-already-meets-target"]++;
    }

    // the run stops at the first iteration it performs at which the combination of all results so far
    // is not larger than the target (comparisons of numbers of the numeric type: exact)
    u64 want = rho_lib.size();
    bool monotone = true;
    for (std::size_t k = 0; k != rho_lib.size(); ++k)
    {
        if (k != 0 && rho_lib[k] > rho_lib[k - 1]) monotone = false;
        if (k >= done && rho_lib[k] <= target)
        {
            want = k + 1;
            break;
        }
    }
    if (!monotone) rep.probes["non-monotone-errors"]++;

    std::vector<u64> rest(q.calls.begin() + done, q.calls.end());

    if (q.mode == 1 && (p.aux[0] / 3) % 3 == 0)
    {
        // a disk that fails while the callback writes: the file cannot be opened, writes fail or come
        // up short. Whether the file could be written has no say in when the run ends.
        Rng fr(mix2(p.aux[0], 991));
        for (u64 n = 0; n != rest.size() + 1; ++n)
        {
            if (fr.chance(0.5))
            {
                Fault f;
                f.kind = FLT_IO_ERROR;
                f.a = (1ULL << 62) + n;
                f.b = fr.chance(0.5) ? 13 : 28;   // EACCES / ENOSPC
                c3.fs_faults.push_back(f);
            }
        }
        for (u64 e = 0; e != 12 * (rest.size() + 1); ++e)
        {
            if (fr.chance(0.1))
            {
                Fault f;
                u64 const k = fr.below(4);
                f.kind = (k == 0) ? FLT_SHORT_WRITE : (k == 1) ? FLT_EINTR : FLT_IO_ERROR;
                f.a = e;
                f.b = (f.kind == FLT_IO_ERROR) ? (fr.chance(0.5) ? 28 : 5) : fr.next();
                c3.fs_faults.push_back(f);
            }
        }
    }

    RunOut const out = s.run(rest, c3);
    rep.faults["short-write"] += fs().n_short;
    rep.faults["eintr"] += fs().n_eintr;
    rep.faults["io-error"] += fs().n_ioerr;
    if (out.threw || out.killed) return;
    rep.probes[want < rho_lib.size() ? "target-reached" : "target-not-reached"]++;

    if (out.results != want)
    {
        rep.fail("C12", "target-stop-position", key, fmt(
            "target %.21Lg%s, relative errors of the combination %s it first at iteration %llu, run made %llu iterations",
            target, tie ? " (equal to one of the errors)" : "", done ? "(after the resume) reach" : "reach",
            (unsigned long long) want, (unsigned long long) out.results));
    }
}

// ------------------------------------------------------------------------------------------------

extern Scenario const scen_restart, scen_durable, scen_rollback, scen_fscrash, scen_modes, scen_mpi;

std::vector<Scenario> const& all_scenarios()
{
    static std::vector<Scenario> const v = {
        {"history", gen_history, exec_history},
        {"lattice", gen_lattice, exec_lattice},
        {"poison", gen_poison, exec_poison},
        {"grid", gen_grid, exec_grid},
        {"weights", gen_weights, exec_weights},
        {"select", gen_select, exec_select},
        {"usage", gen_usage, exec_usage},
        {"bins", gen_bins, exec_bins},
        {"protocol", gen_protocol, exec_protocol},
        scen_restart, scen_durable, scen_rollback, scen_fscrash, scen_modes, scen_mpi,
    };
    return v;
}

Scenario const* find_scenario(std::string const& name)
{
    for (auto const& s : all_scenarios())
    {
        if (name == s.name) return &s;
    }
    return nullptr;
}

}
