// hepsim - in-memory file model behind fopen64/write/writev/fclose/rename/remove for paths below
// /hepsim/. Crash model: process kill - what was handed to write(2) survives, the rest is lost.
#ifndef HEPSIM_FSMODEL_HPP
#define HEPSIM_FSMODEL_HPP

#include "plan.hpp"

#include <cstdint>
#include <map>
#include <streambuf>
#include <string>
#include <vector>

namespace sim
{

enum { FS_OPEN_TRUNC = 0, FS_OPEN_OTHER, FS_WRITE, FS_CLOSE, FS_RENAME, FS_REMOVE };

struct FsEvent
{
    int kind = 0;
    std::string path, path2;
    std::string data;          // bytes accepted by this write
    int err = 0;               // errno if the call was made to fail
};

struct FsModel
{
    std::map<std::string, std::string> files;   // what survives a process kill
    std::map<int, std::string> fds;
    std::vector<FsEvent> trace;
    bool tracing = false;
    bool active = false;
    std::uint64_t nevent = 0;                    // events of this incarnation
    std::uint64_t nopen = 0;                     // opens for writing of this incarnation
    bool dead = false;                           // the process "died" at an earlier event
    std::vector<Fault> faults;                   // FLT_KILL_FS, FLT_SHORT_WRITE, FLT_EINTR, FLT_IO_ERROR
    // counters of faults that actually fired
    std::uint64_t n_short = 0, n_eintr = 0, n_ioerr = 0, n_kill = 0, n_events_total = 0;
    int writer_rank_mask = 0;                    // bit r set if rank r touched a file

    void new_incarnation()
    {
        fds.clear();
        trace.clear();
        nevent = 0;
        nopen = 0;
        dead = false;
        faults.clear();
    }

    void reset()
    {
        new_incarnation();
        files.clear();
        n_short = n_eintr = n_ioerr = n_kill = n_events_total = 0;
        writer_rank_mask = 0;
    }
};

FsModel& fs();

// Enumerates every state a process kill can leave behind while `trace` is applied to `files`:
// before each event, after each event and at every byte prefix of every write (or, if `offsets`
// is not null, only at the prefixes it selects for a write of n bytes). `visit` gets the event
// index, the prefix length (or ~0 for "event complete") and the file map in that state.
struct CrashVisitor
{
    virtual ~CrashVisitor() = default;
    // `touched` names the one path whose content or existence changed since the previous state
    // (empty: nothing changed)
    virtual void state(std::size_t event, std::uint64_t prefix,
        std::map<std::string, std::string> const& files, std::string const& touched) = 0;
    // which prefixes of a write of n bytes to visit (default: all)
    virtual void prefixes(std::size_t /*event*/, std::size_t n, std::vector<std::size_t>& out)
    {
        for (std::size_t i = 1; i < n; ++i) out.push_back(i);
    }
};

void enumerate_crash_states(std::map<std::string, std::string> files,
    std::vector<FsEvent> const& trace, CrashVisitor& v);

// stream buffer that captures std::cout per writer rank and can be told to fail
class CapBuf : public std::streambuf
{
public:
    std::string text;
    std::uint64_t limit = ~0ULL;      // bytes accepted before the buffer starts failing
    std::uint64_t failed_writes = 0;
    int writer_mask = 0;

protected:
    int_type overflow(int_type ch) override;
    std::streamsize xsputn(char const* s, std::streamsize n) override;
};

}

#endif
