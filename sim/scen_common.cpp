#include "scen.hpp"

#include <cmath>

namespace sim
{

std::string key_of(Plan const& p)
{
    return fmt("%s %s %s", integ_name(p.integ), nt_name(p.nt), engine_name(p.eng));
}

void gen_dists(Rng& r, Plan& p, int count, bool probe)
{
    static char const* const names[] = {"name", "", " ", "  lead", "trail  ", "a b c", "#hash", "x,y;z=1", "d\tt",
        "0", "1 2 3", "d\\sigma/dE_\\nu [pb/GeV]", "a\\nb", "back\\\\slash\\", "quo\"te's", "100%d %s", "caf\xc3\xa9",
        "\\", "e+00 1.5"};
    p.dists.clear();
    for (int i = 0; i != count; ++i)
    {
        DistSpec d;
        d.two_d = r.chance(0.35);
        d.bx = 1 + r.below(probe ? 6 : 12);
        d.by = d.two_d ? 1 + r.below(5) : 1;
        int const style = static_cast<int>(r.below(6));
        // sizes stay inside [2^-30, 2^30] for float so that squares of bin contents remain finite
        int const emax = (p.nt == NT_F) ? 12 : 60;
        switch (style)
        {
        case 0: d.xmin = 0; d.xmax = 1; break;
        case 1: d.xmin = -1; d.xmax = 1; break;
        case 2: d.xmin = -3.5L; d.xmax = -0.25L; break;
        case 3: d.xmin = 0; d.xmax = std::ldexp(1.0L, -static_cast<int>(r.below(emax))); break;
        case 4: d.xmin = -std::ldexp(1.0L, static_cast<int>(r.below(emax))); d.xmax = -d.xmin; break;
        default: d.xmin = r.unit() * 10 - 5; d.xmax = d.xmin + 0.01L + r.unit() * 7; break;
        }
        if (d.two_d)
        {
            switch (r.below(3))
            {
            case 0: d.ymin = 0; d.ymax = 1; break;
            case 1: d.ymin = -2; d.ymax = 2; break;
            default: d.ymin = r.unit() * 4 - 2; d.ymax = d.ymin + 0.5L + r.unit() * 3; break;
            }
        }
        // round the parameters to float so that every numeric type sees the same values
        d.xmin = static_cast<float>(d.xmin);
        d.xmax = static_cast<float>(d.xmax);
        d.ymin = static_cast<float>(d.ymin);
        d.ymax = static_cast<float>(d.ymax);
        if (!(d.xmax > d.xmin)) d.xmax = d.xmin + 1;
        if (!(d.ymax > d.ymin)) d.ymax = d.ymin + 1;
        d.name = names[r.below(sizeof names / sizeof names[0])];
        d.proj = probe ? 2 : static_cast<int>(r.below(2));
        p.dists.push_back(d);
    }
}

int tiny_exponent(Rng& r, int nt)
{
    if (nt == NT_F) return -(126 + static_cast<int>(r.below(22)));
    if (nt == NT_D) return -(1022 + static_cast<int>(r.below(50)));
    return -(16382 + static_cast<int>(r.below(60)));
}

void gen_world(Rng& r, Plan& p, GenOpts const& o)
{
    p.integ = (o.integ >= 0) ? o.integ : static_cast<int>(r.below(3));
    p.nt = (o.nt >= 0) ? o.nt : static_cast<int>(r.below(3));

    switch (o.eng_class)
    {
    case 1: p.eng = r.chance(0.65) ? E_SCRIPT64 : r.chance(0.7) ? E_SCRIPT32 : E_SCRIPT14; break;
    case 2: p.eng = E_SCRIPT64; break;
    case 3: p.eng = 2 + static_cast<int>(r.below(9)); break;
    default: p.eng = r.chance(0.45) ? (r.chance(0.1) ? E_SCRIPT14 : static_cast<int>(r.below(2))) : 2 + static_cast<int>(r.below(9));
    }

    p.eseed = 1 + r.below(1000000);
    p.dims = 1 + r.below(3);
    bool const high = o.allow_high_dims && p.integ != MULTI && r.chance(0.04);
    // multi-channel maps may produce more or fewer coordinates than they consume random numbers
    p.mapd = (p.integ == MULTI && r.chance(0.15)) ? std::max<u64>(1, p.dims + r.below(3) - 1) : 0;
    if (p.mapd == p.dims) p.mapd = 0;

    static u64 const bins_pick[] = {2, 2, 3, 4, 5, 8, 16, 32};
    p.bins = r.chance(0.8) ? r.pick(bins_pick) : 2 + r.below(62);
    if (r.chance(0.03)) p.bins = 128;
    p.chan = r.chance(0.9) ? 1 + r.below(6) : 7 + r.below(34);
    if (high)
    {
        // many dimensions (the exponent range of products over dimensions), few calls
        static u64 const hd[] = {10, 19, 20, 24, 40, 150};
        p.dims = r.pick(hd);
        if (r.chance(0.7)) p.bins = 128;
    }

    u64 const n = 1 + r.below(static_cast<u64>(o.max_iters));
    static u64 const calls_pick[] = {1, 2, 3, 5, 8, 17, 33, 64, 100};
    p.calls.clear();
    for (u64 i = 0; i != n; ++i)
    {
        u64 c = r.chance(0.5) ? r.pick(calls_pick) : 1 + r.below(o.max_calls);
        if (o.allow_zero_calls && r.chance(0.04)) c = 0;
        if (c > o.max_calls) c = o.max_calls;
        if (high && c > 40) c = 1 + c % 40;
        p.calls.push_back(c);
    }

    static ld const alpha_pick[] = {0.0L, 0.2L, 1.0L, 1.5L, 1.5L, 3.0L};
    p.alpha = r.chance(0.7) ? r.pick(alpha_pick) : static_cast<ld>(static_cast<float>(3 * r.unit()));
    static ld const beta_pick[] = {0.25L, 0.25L, 0.5L, 1.0L, 0.125L};
    p.beta = r.chance(0.7) ? r.pick(beta_pick) : static_cast<ld>(static_cast<float>(0.01 + 0.99 * r.unit()));
    p.minw = r.chance(0.5) ? 0.0L : static_cast<ld>(static_cast<float>(0.9 * r.unit() / p.chan));
    p.grid = r.chance(0.4);
    p.gseed = r.next();
    p.wts = r.chance(0.5);
    p.wseed = r.next();

    p.acc = o.allow_dists && r.chance(0.5);
    if (p.acc) gen_dists(r, p, static_cast<int>(r.below(4)), false);
    else p.dists.clear();

    if (high && (p.nt == NT_F || p.dims > 24))
    {
        // the product of many bin width factors leaves the exponent range once the grid has adapted
        // (the square of a finite f * w overflows, which no property covers): one iteration on the
        // uniform grid, where every weight is exactly one
        p.calls.resize(1);
        p.grid = 0;
    }

    static int const fk_pick[] = {F_POLY, F_POLY, F_PEAK, F_PEAK, F_SIGN, F_SPARSE, F_SPARSE, F_SELECT, F_LADDER};
    p.fk = r.pick(fk_pick);
    if (o.allow_degenerate && r.chance(0.08)) p.fk = r.chance(0.5) ? F_ZERO : F_CONST;
    p.fseed = r.next();
    p.fq = static_cast<u64>(r.unit() * r.unit() * 4294967296.0);
    p.fmag = static_cast<int>(r.below(9)) - 4;
    if (o.allow_tiny && r.chance(0.03)) p.fmag = tiny_exponent(r, p.nt);
    p.askw = static_cast<int>(r.below(3));
    p.mseed = r.next();
    p.jexp = static_cast<int>(r.below(13)) - 6;
    p.cbk = 1;
    p.mode = 0;
    p.target = 0;
    p.stop = -1;
    p.P = 0;
    p.sseed = r.next();
    p.rorder = static_cast<int>(r.below(3));
    p.genmode = 0;
}

RunCtl ctl_from_plan(Plan const& p)
{
    RunCtl c;
    c.P = p.P;
    c.cbk = p.cbk;
    c.mode = p.mode;
    c.target = p.target;
    c.user_stop = (p.stop >= 0) ? static_cast<u64>(p.stop) : ~0ULL;
    c.sseed = p.sseed;
    c.rorder = p.rorder;
    c.genmode = p.genmode;
    c.lat_n = p.ln;
    // unusual but legal user code, decided by bits of the integrand seed: a nesting integrand (1/8 of
    // the plans), a user callback that keeps its state inside the functor (1/2 of the plans)
    c.nested = (mix2(p.fseed, 60001) % 8) == 0 && !(p.scn == "lattice" && p.variant == 4);
    c.user_stateful = (mix2(p.fseed, 60002) & 1) != 0;
    c.base_typed = (mix2(p.fseed, 60003) & 1) != 0;
    c.params_from_chkpt = (mix2(p.fseed, 60004) % 3) == 0;
    c.fs_yield_p = (p.P != 0 && (mix2(p.sseed, 71) & 1)) ? 0.3 : 0.0;

    for (auto const& f : p.faults)
    {
        switch (f.kind)
        {
        case FLT_RNG_FORCE: c.forced.push_back(f); break;
        case FLT_POISON: c.poison_calls.push_back(f); break;
        case FLT_POISON_HASH: c.poison_q = f.v; c.poison_mask = f.c; break;
        case FLT_KILL_CALL:
            c.kill_armed = true;
            c.kill_iter = static_cast<std::uint32_t>(f.a);
            c.kill_call = f.b;
            c.kill_rank = static_cast<int>(f.c);
            break;
        case FLT_KILL_FS: case FLT_SHORT_WRITE: case FLT_EINTR: case FLT_IO_ERROR:
            c.fs_faults.push_back(f);
            break;
        case FLT_COUT_FAIL: c.cout_limit = f.a; break;
        case FLT_STALL: c.stalls.push_back(f); break;
        default: break;
        }
    }

    return c;
}

Session::Session(Plan const& plan, Report& r)
    : p(plan)
    , rep(r)
    , w(make_world(plan.nt, plan.eng))
{
}

RunOut Session::run(std::vector<u64> const& calls, RunCtl const& ctl)
{
    RunOut out = w->run(p, calls, ctl);
    absorb(out, rep);
    rep.fs_events += fs().nevent;

    if (out.hang)
    {
        rep.fail("C04", "hang", key_of(p), out.hang_why);
    }

    // under MPI every rank must take the same stop decision after every iteration (otherwise the
    // ranks that go on wait for the others forever)
    if (out.ranks.size() > 1)
    {
        auto const& c0 = out.ranks[0].cbs;
        for (std::size_t r = 1; r != out.ranks.size(); ++r)
        {
            auto const& cr = out.ranks[r].cbs;
            for (std::size_t i = 0; i != c0.size() && i != cr.size(); ++i)
            {
                if (c0[i].ret != cr[i].ret)
                {
                    rep.fail("C12", "ranks-disagree-on-stop", fmt("%s mpi", integ_name(p.integ)), fmt(
                        "after iteration %zu the callback returned %s on rank 0 and %s on rank %zu%s", i,
                        c0[i].ret ? "true" : "false", cr[i].ret ? "true" : "false", r,
                        out.hang ? " (the run hung)" : ""));
                    break;
                }
            }
        }
    }

    if (check && !out.killed && !out.hang && !out.threw)
    {
        ChkptView const v = w->view();
        oracle_segment(p, ctl, calls, out, v, *w, rep);
        if (out.base == 0) oracle_c19_first(p, *w, v, rep);
    }

    return out;
}

static std::string name_class(Plan const& p)
{
    for (auto const& d : p.dists)
    {
        if (d.name.empty()) return "empty distribution name";
        bool blank = true;
        for (char c : d.name) blank = blank && (c == ' ' || c == '\t');
        if (blank) return "blank distribution name";
    }
    for (auto const& d : p.dists)
    {
        if (d.name[0] == ' ' || d.name[0] == '\t') return "distribution name with leading blanks";
    }
    return std::string();
}

std::string roundtrip_class(Plan const& p)
{
    std::string const nc = (p.acc != 0) ? name_class(p) : std::string();
    if (!nc.empty()) return nc;
    if (p.eng == E_MINSTD0 || p.eng == E_MINSTD || p.eng == E_KNUTH_B) return fmt("engine %s", engine_name(p.eng));
    return std::string();
}

bool durability_check(Plan const& p, IWorld& nw, ChkptView const& before, std::string const& text,
    Report& rep, char const* where)
{
    LoadInfo info;
    bool const ok = nw.load(p, text, info);
    ++rep.restarts;

    // the key names the feature of the input that is known to matter, so that known findings can be
    // told apart from new ones
    std::string key = key_of(p);
    bool const lcg = (p.eng == E_MINSTD0 || p.eng == E_MINSTD || p.eng == E_KNUTH_B);
    std::string const nc = (p.acc != 0) ? name_class(p) : std::string();

    if (!ok || info.threw)
    {
        std::string k = !nc.empty() ? nc : lcg ? fmt("engine %s", engine_name(p.eng)) : key;
        rep.fail("C05", "text-not-readable", k, fmt("%s: reading the checkpoint text back failed (%s)", where,
            info.threw ? info.what.c_str() : "stream in failed state"));
        return false;
    }

    ChkptView const after = nw.view();
    std::string const diff = compare_views(before, after);

    if (!diff.empty())
    {
        // name the distribution name as the cause only if a name is what differs
        std::string k = (!nc.empty() && diff.find("name") != std::string::npos) ? nc : key;
        rep.fail("C05", "field-differs", k, fmt("%s: %s", where, diff.c_str()));
        return false;
    }

    if (!info.only_ws_left)
    {
        rep.fail("C05", "unread-input", key, fmt("%s: text not consumed completely", where));
        return false;
    }

    return true;
}

bool Session::reload(char const* where)
{
    ChkptView const before = w->view();
    {
        std::string const br = w->base_roundtrip();
        if (!br.empty()) rep.fail("C05", "base-checkpoint-roundtrip", key_of(p), fmt("%s: %s", where, br.c_str()));
    }
    std::unique_ptr<IWorld> nw = make_world(p.nt, p.eng);
    std::size_t const nfind = rep.findings.size();
    bool const ok = durability_check(p, *nw, before, before.text, rep, where);
    // readable but different: the run can go on with what was read (as a user's program would)
    reload_usable = ok;
    if (!ok && rep.findings.size() > nfind && rep.findings.back().tag != "text-not-readable") reload_usable = true;
    if (!ok && rep.findings.size() == nfind)
    {
        // the finding was already recorded earlier in this run; decide by reading again
        LoadInfo info;
        std::unique_ptr<IWorld> probe = make_world(p.nt, p.eng);
        reload_usable = probe->load(p, before.text, info) && !info.threw;
    }
    w = std::move(nw);
    return ok;
}

}
