// hepsim - Runner<T, E>::run and the serial reference iteration
#ifndef HEPSIM_RUNNER_IMPL_HPP
#define HEPSIM_RUNNER_IMPL_HPP

#include <functional>

namespace sim
{

template <typename T, typename E>
RunOut Runner<T, E>::run(Plan const& p, std::vector<u64> const& calls64, RunCtl const& ctl)
{
    RunOut out;
    out.base = nresults();
    std::vector<std::size_t> const calls(calls64.begin(), calls64.end());

    CapBuf cap;
    cap.limit = ctl.cout_limit;
    std::streambuf* const old = std::cout.rdbuf(&cap);

    FsModel& m = fs();
    m.new_incarnation();
    m.faults = ctl.fs_faults;
    m.tracing = ctl.fs_trace;
    m.active = true;

    if (p.acc != 0) run_impl<true>(p, calls, ctl, out);
    else run_impl<false>(p, calls, ctl, out);

    m.active = false;
    std::cout.rdbuf(old);
    std::cout.clear();

    out.cout_text.swap(cap.text);
    out.cout_writers = cap.writer_mask;
    out.cout_failed = cap.failed_writes;
    if (m.dead) out.killed = true;
    if (!out.killed && !out.threw && !out.hang) out.results = nresults();
    return out;
}

template <typename T, typename E>
template <bool Dist>
void Runner<T, E>::run_impl(Plan const& p, std::vector<std::size_t> const& calls, RunCtl const& ctl,
    RunOut& out)
{
    ChannelMap cmap;
    if (p.integ == MULTI) cmap.build(p);

    std::vector<hep::distribution_parameters<T>> params;
    if (Dist) params = dist_params(p);

    if (Dist && ctl.params_from_chkpt && nresults() != 0)
    {
        // a continued run whose program takes the binning from the checkpoint it read instead of
        // constructing it again
        std::vector<hep::distribution_parameters<T>> stored;
        if (integ_ == PLAIN) for (auto const& d : pc_->results().back().distributions()) stored.push_back(d.parameters());
        else if (integ_ == VEGAS) for (auto const& d : vc_->results().back().distributions()) stored.push_back(d.parameters());
        else for (auto const& d : mc_->results().back().distributions()) stored.push_back(d.parameters());
        if (stored.size() == params.size()) params = stored;
    }

    PlainFunc<T> pf;
    pf.plan = &p;
    pf.cmap = &cmap;
    VegasFunc<T> vf;
    vf.plan = &p;
    vf.cmap = &cmap;
    MultiFunc<T> mf;
    mf.plan = &p;
    mf.cmap = &cmap;
    MultiMap<T> mm;
    mm.plan = &p;
    mm.cmap = &cmap;

    using PI = hep::integrand<T, PlainFunc<T>, Dist>;
    using VI = hep::integrand<T, VegasFunc<T>, Dist>;
    using MI = hep::multi_channel_integrand<T, MultiFunc<T>, MultiMap<T>, Dist>;

    u64 const base = nresults();

    if (ctl.P == 0)
    {
        Ctx c;
        arm(c, p, ctl, 0, base);
        Ctx* const prev = current_ctx();
        current_ctx() = &c;

        // a nesting integrand: on some calls the scripted integrand runs a small integration of the
        // same kind and the same types itself (the library must be re-entrant)
        std::function<void()> nested;
        struct Hook
        {
            static void call(void* f) { (*static_cast<std::function<void()>*>(f))(); }
        };

        try
        {
            if (integ_ == PLAIN)
            {
                PI in(pf, p.dims, params);
                PI inner(pf, p.dims + 1, params);
                nested = [&inner]() {
                    E g(4711);
                    (void) hep::plain_iteration(inner, 3, g);
                };
                c.nested_hook = &Hook::call;
                c.nested_arg = &nested;
                PChk r = hep::plain(in, calls, *pc_, SimCallback<PChk>(ctl));
                *pc_ = std::move(r);
            }
            else if (integ_ == VEGAS)
            {
                VI in(vf, p.dims, params);
                VI inner(vf, p.dims + 1, params);
                hep::vegas_pdf<T> const inner_pdf(p.dims + 1, p.bins);
                nested = [&inner, &inner_pdf]() {
                    E g(4711);
                    (void) hep::vegas_iteration(inner, 3, inner_pdf, g);
                };
                c.nested_hook = &Hook::call;
                c.nested_arg = &nested;
                VChk r = hep::vegas(in, calls, *vc_, SimCallback<VChk>(ctl));
                *vc_ = std::move(r);
            }
            else
            {
                MI in(mf, p.dims, mm, p.mapd ? p.mapd : p.dims, p.chan, params);
                MI inner(mf, p.dims + 1, mm, (p.mapd ? p.mapd : p.dims) + 1, p.chan, params);
                std::vector<T> const inner_weights(p.chan, T(1) / T(p.chan));
                nested = [&inner, &inner_weights]() {
                    E g(4711);
                    (void) hep::multi_channel_iteration(inner, 3, inner_weights, g);
                };
                c.nested_hook = &Hook::call;
                c.nested_arg = &nested;
                MChk r = hep::multi_channel(in, calls, *mc_, SimCallback<MChk>(ctl));
                *mc_ = std::move(r);
            }

            ran_ = true;
            c.counting = false;
            out.rank_texts.push_back(text());
        }
        catch (killed const&)
        {
            out.killed = true;
        }
        catch (std::exception const& e)
        {
            out.threw = true;
            out.what = e.what();
        }

        c.counting = false;
        current_ctx() = prev;
        out.ranks.push_back(std::move(c));
        return;
    }

    int const P = static_cast<int>(ctl.P);
    MpiWorld w(P, ctl.sseed, ctl.rorder, ctl.stall_p);
    w.step_budget = static_cast<u64>(P) * (2 * calls.size() + 4) + 64;
    w.fs_yield_p = ctl.fs_yield_p;

    for (auto const& s : ctl.stalls)
    {
        if (s.a < static_cast<u64>(P))
        {
            w.ranks[s.a].stall += s.b;
            w.step_budget += s.b;
            ++w.stalls_fired;
        }
    }

    // stalls drawn by the scheduler are bounded by 4 * P steps each
    if (ctl.stall_p > 0) w.step_budget += static_cast<u64>(P) * (2 * calls.size() + 4) * 4 * P;

    int const split = static_cast<int>(ctl.comm_split);
    for (int r = 0; r != P; ++r)
    {
        // with a split world every rank is known to its job by its rank in the sub-communicator
        int const group_rank = (split > 0 && r >= split) ? r - split : r;
        arm(w.ranks[r].ctx, p, ctl, group_rank, base);
        w.ranks[r].color = (split > 0 && r >= split) ? 1 : 0;
        w.ranks[r].ctx.world = (split > 0) ? ((r >= split) ? P - split : split) : P;
    }

    std::vector<std::unique_ptr<PChk>> pres(P);
    std::vector<std::unique_ptr<VChk>> vres(P);
    std::vector<std::unique_ptr<MChk>> mres(P);
    std::vector<std::string> texts(P);
    std::vector<char> returned(P, 0);

    // two jobs in one process: the second half of a split world integrates with another generator seed
    // and writes to a file of its own (two integrations of one program running side by side)
    bool const two_jobs = ctl.two_jobs && split > 0 && base == 0;
    std::unique_ptr<Runner> other;
    RunCtl ctl1 = ctl;
    if (two_jobs)
    {
        other.reset(new Runner(nt_, eng_));
        Plan q1 = p;
        q1.eseed = p.eseed + 1;
        other->fresh(q1);
        ctl1.filename = ctl.filename + ".g1";
    }

    w.run([&](int r) {
        MPI_Comm const comm = (split > 0) ? 100 + w.ranks[r].color : MPI_COMM_WORLD;
        bool const second = two_jobs && w.ranks[r].color == 1;
        RunCtl const& cr = second ? ctl1 : ctl;
        // every rank owns private copies of user code and checkpoint, as separate processes would
        if (integ_ == PLAIN)
        {
            PI in(pf, p.dims, params);
            PChk start(second ? *other->pc_ : *pc_);
            pres[r].reset(new PChk(hep::mpi_plain(comm, in, calls, start,
                SimMpiCallback<PChk>(cr))));
            ctx().counting = false;
            std::ostringstream o;
            pres[r]->serialize(o);
            texts[r] = o.str();
        }
        else if (integ_ == VEGAS)
        {
            VI in(vf, p.dims, params);
            VChk start(second ? *other->vc_ : *vc_);
            vres[r].reset(new VChk(hep::mpi_vegas(comm, in, calls, start,
                SimMpiCallback<VChk>(cr))));
            ctx().counting = false;
            std::ostringstream o;
            vres[r]->serialize(o);
            texts[r] = o.str();
        }
        else
        {
            MI in(mf, p.dims, mm, p.mapd ? p.mapd : p.dims, p.chan, params);
            MChk start(second ? *other->mc_ : *mc_);
            mres[r].reset(new MChk(hep::mpi_multi_channel(comm, in, calls, start,
                SimMpiCallback<MChk>(cr))));
            ctx().counting = false;
            std::ostringstream o;
            mres[r]->serialize(o);
            texts[r] = o.str();
        }
        returned[r] = 1;
    });

    out.hang = w.hang;
    out.hang_why = w.hang_why;
    out.steps = w.steps;
    out.collectives = w.collectives;
    out.interleave = w.interleave.h;
    out.reorders = w.reorders;
    out.stalls = w.stalls_fired;
    out.fs_yields = w.fs_yields;

    bool all_returned = true;

    for (int r = 0; r != P; ++r)
    {
        auto& k = w.ranks[r];
        k.ctx.counting = false;
        if (k.died_killed) out.killed = true;
        if (!k.what.empty())
        {
            out.threw = true;
            out.what = k.what;
        }
        if (!returned[r]) all_returned = false;
        out.ranks.push_back(std::move(k.ctx));
    }

    if (all_returned && !w.hang)
    {
        out.rank_texts = texts;
        if (integ_ == PLAIN) *pc_ = *pres[0];
        else if (integ_ == VEGAS) *vc_ = *vres[0];
        else *mc_ = *mres[0];
        ran_ = true;
    }
    else if (!out.killed && !out.threw && !out.hang)
    {
        out.hang = true;
        out.hang_why = "not all ranks returned";
    }
}

// a checkpoint class of the user's own: the channel weights never change
template <typename T, typename E>
class FixedWeightsChkpt : public hep::chkpt_with_rng<E, hep::chkpt<hep::multi_channel_result<T>>>
{
public:
    FixedWeightsChkpt(E const& generator, std::vector<T> const& weights)
        : hep::chkpt_with_rng<E, hep::chkpt<hep::multi_channel_result<T>>>(generator)
        , weights_(weights)
    {
    }

    // (as the library's own checkpoint classes: readable from a stream)
    explicit FixedWeightsChkpt(std::istream& in)
        : hep::chkpt_with_rng<E, hep::chkpt<hep::multi_channel_result<T>>>(in)
    {
    }

    void channels(std::size_t n)
    {
        if (weights_.size() != n) weights_.assign(n, T(1) / T(n));
    }

    std::vector<T> const& channel_weights() const { return weights_; }

    // (the rest of the interface of the library's own multi-channel checkpoint)
    T beta() const { return T(); }
    T min_weight() const { return T(); }

private:
    std::vector<T> weights_;
};

template <typename T, typename E>
std::string Runner<T, E>::user_chkpt_modes(Plan const& p, std::vector<u64> const& calls64, RunCtl const& ctl)
{
    if (p.integ != MULTI) return std::string();
    using Chk = FixedWeightsChkpt<T, E>;
    std::vector<std::size_t> const calls(calls64.begin(), calls64.end());

    ChannelMap cmap;
    cmap.build(p);
    std::vector<hep::distribution_parameters<T>> const params = dist_params(p);
    std::vector<T> weights(p.chan, T(1) / T(p.chan));
    std::string texts[4];
    std::string failure;

    CapBuf cap;
    std::streambuf* const old = std::cout.rdbuf(&cap);
    FsModel& m = fs();

    for (int mode = 0; mode != 4 && failure.empty(); ++mode)
    {
        m.reset();
        m.new_incarnation();
        m.active = true;
        Ctx c;
        RunCtl quiet = ctl;
        quiet.kill_armed = false;
        arm(c, p, quiet, 0, 0);
        Ctx* const prev = current_ctx();
        current_ctx() = &c;
        MultiFunc<T> f;
        f.plan = &p;
        f.cmap = &cmap;
        MultiMap<T> mm;
        mm.plan = &p;
        mm.cmap = &cmap;

        try
        {
            Chk const start(E(p.eseed), weights);
            hep::callback<Chk> cb(static_cast<hep::callback_mode>(mode), "/hepsim/user-chkpt.chkpt");
            std::ostringstream o;
            if (p.acc != 0)
            {
                hep::multi_channel_integrand<T, MultiFunc<T>, MultiMap<T>, true> in(f, p.dims, mm,
                    p.mapd ? p.mapd : p.dims, p.chan, params);
                Chk const r = hep::multi_channel(in, calls, start, cb);
                r.serialize(o);
            }
            else
            {
                hep::multi_channel_integrand<T, MultiFunc<T>, MultiMap<T>, false> in(f, p.dims, mm,
                    p.mapd ? p.mapd : p.dims, p.chan, {});
                Chk const r = hep::multi_channel(in, calls, start, cb);
                r.serialize(o);
            }
            texts[mode] = o.str();
            if (mode != 0 && texts[mode] != texts[0]) failure = "mode " + std::to_string(mode) + " returns other results than mode 0";
            if ((mode == 1 || mode == 3) && failure.empty())
            {
                auto it = m.files.find("/hepsim/user-chkpt.chkpt");
                if (it == m.files.end() || it->second != texts[mode]) failure = "mode " + std::to_string(mode) + ": the file is not the returned checkpoint";
            }
        }
        catch (std::exception const& e)
        {
            failure = "mode " + std::to_string(mode) + ": exception " + e.what();
        }
        catch (killed const&)
        {
            failure = "mode " + std::to_string(mode) + ": killed";
        }

        c.counting = false;
        current_ctx() = prev;
        m.active = false;
    }

    std::cout.rdbuf(old);
    std::cout.clear();
    return failure;
}

template <typename T, typename E>
bool Runner<T, E>::redo_last_by_hand(Plan const& p, u64 calls64, RunCtl const& ctl)
{
    u64 const n = nresults();
    if (n == 0) return false;
    std::size_t const calls = static_cast<std::size_t>(calls64);

    ChannelMap cmap;
    if (p.integ == MULTI) cmap.build(p);
    std::vector<hep::distribution_parameters<T>> params = dist_params(p);

    Ctx c;
    RunCtl quiet = ctl;
    quiet.kill_armed = false;
    arm(c, p, quiet, 0, n - 1);
    Ctx* const prev = current_ctx();
    current_ctx() = &c;
    bool ok = true;

    try
    {
        if (integ_ == PLAIN)
        {
            PlainFunc<T> f;
            f.plan = &p;
            f.cmap = &cmap;
            pc_->rollback(n - 1);
            E gen(pc_->generator());
            if (p.acc != 0)
            {
                hep::integrand<T, PlainFunc<T>, true> in(f, p.dims, params);
                auto const r = hep::plain_iteration(in, calls, gen);
                pc_->add(r, gen);
            }
            else
            {
                hep::integrand<T, PlainFunc<T>, false> in(f, p.dims, {});
                auto const r = hep::plain_iteration(in, calls, gen);
                pc_->add(r, gen);
            }
        }
        else if (integ_ == VEGAS)
        {
            VegasFunc<T> f;
            f.plan = &p;
            f.cmap = &cmap;
            hep::vegas_pdf<T> const grid(vc_->results().back().pdf());   // the state the last iteration was drawn with
            vc_->rollback(n - 1);
            E gen(vc_->generator());
            if (p.acc != 0)
            {
                hep::integrand<T, VegasFunc<T>, true> in(f, p.dims, params);
                auto const r = hep::vegas_iteration(in, calls, grid, gen);
                vc_->add(r, gen);
            }
            else
            {
                hep::integrand<T, VegasFunc<T>, false> in(f, p.dims, {});
                auto const r = hep::vegas_iteration(in, calls, grid, gen);
                vc_->add(r, gen);
            }
        }
        else
        {
            MultiFunc<T> f;
            f.plan = &p;
            f.cmap = &cmap;
            MultiMap<T> m;
            m.plan = &p;
            m.cmap = &cmap;
            std::vector<T> const weights(mc_->results().back().channel_weights());
            mc_->rollback(n - 1);
            E gen(mc_->generator());
            if (p.acc != 0)
            {
                hep::multi_channel_integrand<T, MultiFunc<T>, MultiMap<T>, true> in(f, p.dims, m,
                    p.mapd ? p.mapd : p.dims, p.chan, params);
                auto const r = hep::multi_channel_iteration(in, calls, weights, gen);
                mc_->add(r, gen);
            }
            else
            {
                hep::multi_channel_integrand<T, MultiFunc<T>, MultiMap<T>, false> in(f, p.dims, m,
                    p.mapd ? p.mapd : p.dims, p.chan, {});
                auto const r = hep::multi_channel_iteration(in, calls, weights, gen);
                mc_->add(r, gen);
            }
        }
    }
    catch (...)
    {
        ok = false;
    }

    c.counting = false;
    current_ctx() = prev;
    return ok;
}

template <typename T, typename E>
SerialRef Runner<T, E>::serial_iteration(Plan const& p, u64 k, RunCtl const& ctl) const
{
    SerialRef ref;
    if (k >= nresults()) return ref;

    std::string const t = text();
    auto const lines = generator_lines(t, nresults() + 1);
    E gen;
    if (k >= lines.size() || !engine_from_line(lines[k], gen)) return ref;

    ChannelMap cmap;
    if (p.integ == MULTI) cmap.build(p);

    std::vector<hep::distribution_parameters<T>> params = dist_params(p);

    Ctx c;
    RunCtl quiet = ctl;
    quiet.kill_armed = false;
    arm(c, p, quiet, 0, k);
    Ctx* const prev = current_ctx();
    current_ctx() = &c;

    try
    {
        if (integ_ == PLAIN)
        {
            PlainFunc<T> f;
            f.plan = &p;
            f.cmap = &cmap;
            std::size_t const calls = pc_->results()[k].calls();
            if (p.acc != 0)
            {
                hep::integrand<T, PlainFunc<T>, true> in(f, p.dims, params);
                view_plain(hep::plain_iteration(in, calls, gen), ref.result);
            }
            else
            {
                hep::integrand<T, PlainFunc<T>, false> in(f, p.dims, {});
                view_plain(hep::plain_iteration(in, calls, gen), ref.result);
            }
        }
        else if (integ_ == VEGAS)
        {
            VegasFunc<T> f;
            f.plan = &p;
            f.cmap = &cmap;
            auto const& res = vc_->results()[k];
            std::size_t const calls = res.calls();
            if (p.acc != 0)
            {
                hep::integrand<T, VegasFunc<T>, true> in(f, p.dims, params);
                auto const r = hep::vegas_iteration(in, calls, res.pdf(), gen);
                view_plain(r, ref.result);
                for (T a : r.adjustment_data()) ref.result.adj.push_back(a);
            }
            else
            {
                hep::integrand<T, VegasFunc<T>, false> in(f, p.dims, {});
                auto const r = hep::vegas_iteration(in, calls, res.pdf(), gen);
                view_plain(r, ref.result);
                for (T a : r.adjustment_data()) ref.result.adj.push_back(a);
            }
        }
        else
        {
            MultiFunc<T> f;
            f.plan = &p;
            f.cmap = &cmap;
            MultiMap<T> m;
            m.plan = &p;
            m.cmap = &cmap;
            auto const& res = mc_->results()[k];
            std::size_t const calls = res.calls();
            if (p.acc != 0)
            {
                hep::multi_channel_integrand<T, MultiFunc<T>, MultiMap<T>, true> in(f, p.dims, m,
                    p.mapd ? p.mapd : p.dims, p.chan, params);
                auto const r = hep::multi_channel_iteration(in, calls, res.channel_weights(), gen);
                view_plain(r, ref.result);
                for (T a : r.adjustment_data()) ref.result.adj.push_back(a);
            }
            else
            {
                hep::multi_channel_integrand<T, MultiFunc<T>, MultiMap<T>, false> in(f, p.dims, m,
                    p.mapd ? p.mapd : p.dims, p.chan, {});
                auto const r = hep::multi_channel_iteration(in, calls, res.channel_weights(), gen);
                view_plain(r, ref.result);
                for (T a : r.adjustment_data()) ref.result.adj.push_back(a);
            }
        }

        std::ostringstream o;
        o << gen;
        ref.gen_after = o.str();
        ref.ok = true;
    }
    catch (...)
    {
        ref.ok = false;
    }

    c.counting = false;
    current_ctx() = prev;
    ref.log = std::move(c);
    return ref;
}

}

#endif
