// hepsim - findings, per run report and the oracles that are armed in every scenario
#ifndef HEPSIM_ORACLE_HPP
#define HEPSIM_ORACLE_HPP

#include "world.hpp"

#include <map>
#include <string>
#include <vector>

namespace sim
{

struct Finding
{
    std::string prop;     // C01 ...
    std::string tag;      // oracle tag
    std::string key;      // normalised key of the failing input (for known findings)
    std::string detail;
};

struct Report
{
    std::vector<Finding> findings;
    Fnv hash;                                   // event log hash
    std::map<std::string, u64> faults;          // fault kinds that actually fired
    std::map<std::string, u64> probes;          // rare conditions reached
    u64 calls = 0, collectives = 0, fs_events = 0, restarts = 0, runs = 0, sched_steps = 0;
    std::vector<u64> interleavings;             // hashes of (arrival, reduction) sequences
    bool nontrivial = false;

    void fail(std::string const& prop, std::string const& tag, std::string const& key,
        std::string const& detail)
    {
        for (auto const& f : findings)
        {
            if (f.prop == prop && f.tag == tag) return;   // one finding per oracle and run
        }
        findings.push_back(Finding{prop, tag, key, detail});
    }

    bool failed(std::string const& prop) const
    {
        for (auto const& f : findings)
        {
            if (f.prop == prop) return true;
        }
        return false;
    }
};

std::string fmt(char const* f, ...) __attribute__((format(printf, 1, 2)));

// adds the call / callback / collective logs of a run to the event log hash and the step counters
void absorb(RunOut const& out, Report& rep);

// merged view of the calls of one iteration over all ranks
struct IterCalls
{
    std::vector<std::pair<Ctx const*, CallRec const*>> recs;
};

void collect_iteration(RunOut const& out, u64 iter, IterCalls& ic);

// weight of a call: the logged one, or for multi-channel calls whose weight was not seen by the
// integrand J / sum_j alpha_j d_j from the logged densities
bool call_weight(Ctx const& c, CallRec const& r, ResultView const& rv, ld& w);

// value f * w rounded as the numeric type would
ld round_to(int nt, ld v);

// The oracles armed after every run segment. `seg_calls` are the calls requested per iteration of
// this segment; the view is the checkpoint after the segment.
void oracle_segment(Plan const& p, RunCtl const& ctl, std::vector<u64> const& seg_calls,
    RunOut const& out, ChkptView const& after, IWorld const& world, Report& rep);

// individual pieces (also used on their own by scenarios)
void oracle_c02(Plan const& p, RunCtl const& ctl, std::vector<u64> const& seg_calls, RunOut const& out,
    ChkptView const& v, Report& rep);
void oracle_c07_invariants(Plan const& p, RunOut const& out, ChkptView const& v, Report& rep);
void oracle_c07_share(Plan const& p, ChkptView const& v, Report& rep, bool used_grids = false);
void oracle_c08(Plan const& p, ChkptView const& v, Report& rep, u64 from = 0);
void oracle_c09_invariant(Plan const& p, RunOut const& out, ChkptView const& v, Report& rep);
void oracle_c10(Plan const& p, std::vector<u64> const& seg_calls, RunOut const& out, IWorld const& world,
    Report& rep);
void oracle_c11(Plan const& p, RunOut const& out, ChkptView const& v, Report& rep);
void oracle_c12_history(Plan const& p, RunCtl const& ctl, std::vector<u64> const& seg_calls,
    RunOut const& out, Report& rep);
void oracle_c17(Plan const& p, RunOut const& out, ChkptView const& v, Report& rep);
void oracle_c19(Plan const& p, RunCtl const& ctl, RunOut const& out, ChkptView const& v, bool first_segment,
    Report& rep);

// field by field, bit by bit comparison of two checkpoint views (C05); returns a description of
// the first difference or an empty string
std::string compare_views(ChkptView const& a, ChkptView const& b, bool ignore_nz = false);

// independent long double reference of the variance weighted combination: cumulative relative error
// after each iteration (C12)
std::vector<ld> reference_rel_errors(ChkptView const& v);
ld rel_error_uncertainty(ChkptView const& v, int nt);
std::vector<ld> reference_value_conditions(ChkptView const& v);

// the canonical number libstdc++ makes of one 64 bit raw output for numeric type nt
ld canonical_from_raw64(int nt, u64 raw);
// non-zero and far enough from both ends of the exponent range of the numeric type for relative tolerances
bool in_exponent_range(int nt, ld v);

// the first iteration samples with the user's state or the uniform default (C19)
void oracle_c19_first(Plan const& p, IWorld const& world, ChkptView const& v, Report& rep);

}

#endif
