#include "mpishim.hpp"
#include "shim/mpi.h"

#include <algorithm>
#include <cstring>
#include <exception>

namespace sim
{

MpiWorld*& current_world()
{
    static thread_local MpiWorld* w = nullptr;
    return w;
}

int& current_rank()
{
    static thread_local int r = 0;
    return r;
}

MpiWorld::MpiWorld(int P, std::uint64_t sseed, int rorder, double stall_p)
    : ranks(P)
    , sseed_(sseed)
    , rng_(sseed)
    , rorder_(rorder)
    , stall_p_(stall_p)
{
}

void MpiWorld::give(int r)
{
    std::unique_lock<std::mutex> lock(m_);
    baton_ = r;
    cv_.notify_all();
    cv_.wait(lock, [&] { return baton_ == -1; });
}

void MpiWorld::yield_from(int r)
{
    std::unique_lock<std::mutex> lock(m_);
    baton_ = -1;
    cv_.notify_all();
    cv_.wait(lock, [&] { return baton_ == r; });
}

int MpiWorld::allreduce(int r, void* buf, int count, int dtype, int comm)
{
    Rank& me = ranks[r];
    me.buf = buf;
    me.count = count;
    me.dtype = dtype;
    me.comm = comm;
    me.st = WAITING;

    CollRec rec;
    rec.count = static_cast<std::uint64_t>(count);
    rec.dtype = dtype;
    rec.pos = me.ctx.pos;
    rec.calls_logged = me.ctx.calls.size();
    me.ctx.colls.push_back(rec);

    arrival_.push_back(r);

    yield_from(r);

    if (me.kill)
    {
        throw killed{};
    }

    return MPI_SUCCESS;
}

void MpiWorld::fs_point(int r)
{
    if (fs_yield_p <= 0 || aborted || hang) return;
    if (!rng_.chance(fs_yield_p)) return;
    ++fs_yields;
    ++step_budget;
    yield_from(r);
}

void fs_sched_point()
{
    MpiWorld* const w = current_world();
    if (w != nullptr) w->fs_point(current_rank());
}

std::vector<int> MpiWorld::members_of(int comm, int world_rank) const
{
    std::vector<int> m;
    for (int r = 0; r != size(); ++r)
    {
        if (comm == 0 || ranks[r].color == ranks[world_rank].color) m.push_back(r);
    }
    return m;
}

int MpiWorld::comm_rank(int comm, int world_rank) const
{
    if (comm == 0) return world_rank;
    int n = 0;
    for (int r = 0; r != world_rank; ++r)
    {
        if (ranks[r].color == ranks[world_rank].color) ++n;
    }
    return n;
}

int MpiWorld::comm_size(int comm, int world_rank) const
{
    return static_cast<int>(members_of(comm, world_rank).size());
}

template <typename T>
static void reduce_typed(std::vector<MpiWorld::Rank>& ranks, std::vector<int> const& order, int rorder,
    Rng& rng, int count)
{
    std::size_t const P = order.size();
    std::vector<T> out(count);

    // the shape of a random reduction tree is drawn once per collective, as a list of pair merges
    std::vector<std::pair<std::size_t, std::size_t>> merges;
    if (rorder == 2)
    {
        std::size_t live = P;
        while (live > 1)
        {
            std::size_t a = rng.below(live);
            std::size_t b = rng.below(live - 1);
            if (b >= a) ++b;
            merges.emplace_back(a, b);
            --live;
        }
    }

    for (int i = 0; i != count; ++i)
    {
        if (rorder == 2)
        {
            std::vector<T> v(P);
            for (std::size_t k = 0; k != P; ++k) v[k] = static_cast<T*>(ranks[order[k]].buf)[i];
            for (auto const& mg : merges)
            {
                std::size_t a = mg.first, b = mg.second;
                if (a > b) std::swap(a, b);
                v[a] = v[a] + v[b];
                v.erase(v.begin() + b);
            }
            out[i] = v[0];
        }
        else
        {
            T acc = static_cast<T*>(ranks[order[0]].buf)[i];
            for (std::size_t k = 1; k != P; ++k)
            {
                acc = acc + static_cast<T*>(ranks[order[k]].buf)[i];
            }
            out[i] = acc;
        }
    }

    for (std::size_t k = 0; k != P; ++k)
    {
        if (count != 0) std::memcpy(ranks[order[k]].buf, out.data(), sizeof(T) * count);
    }
}

void MpiWorld::reduce_group(std::vector<int> const& members)
{
    std::size_t const P = members.size();
    int const count = ranks[members[0]].count;
    int const dtype = ranks[members[0]].dtype;

    std::vector<int> order(members);

    // the order of the reduction is a function of the schedule seed and the number of the collective
    // only: what the scheduler drew in between (stalls, descheduling before file system calls) has no
    // say in it, so that runs which differ in their file traffic alone reduce alike
    Rng red(mix2(sseed_ ^ 0x9e3779b97f4a7c15ULL, collectives + 1000003ULL * static_cast<std::uint64_t>(members[0])));

    if (rorder_ == 1 || rorder_ == 2)
    {
        for (std::size_t k = P; k > 1; --k)
        {
            std::swap(order[k - 1], order[red.below(k)]);
        }
    }

    interleave.u64(0xC011);
    bool in_rank_order = true;
    std::size_t pos = 0;
    std::vector<int> rest;
    for (int a : arrival_)
    {
        if (std::find(members.begin(), members.end(), a) == members.end())
        {
            rest.push_back(a);
            continue;
        }
        interleave.u64(static_cast<std::uint64_t>(a));
        if (pos < P && a != members[pos]) in_rank_order = false;
        ++pos;
    }
    if (!in_rank_order) ++reorders;
    for (int o : order) interleave.u64(static_cast<std::uint64_t>(o) + 1000);

    switch (dtype)
    {
    case MPI_UNSIGNED: reduce_typed<unsigned>(ranks, order, rorder_, red, count); break;
    case MPI_UNSIGNED_LONG: reduce_typed<unsigned long>(ranks, order, rorder_, red, count); break;
    case MPI_UNSIGNED_LONG_LONG:
        reduce_typed<unsigned long long>(ranks, order, rorder_, red, count);
        break;
    case MPI_FLOAT: reduce_typed<float>(ranks, order, rorder_, red, count); break;
    case MPI_DOUBLE: reduce_typed<double>(ranks, order, rorder_, red, count); break;
    case MPI_LONG_DOUBLE: reduce_typed<long double>(ranks, order, rorder_, red, count); break;
    default: break;
    }

    ++collectives;
    arrival_.swap(rest);
}

void MpiWorld::run(std::function<void(int)> const& body)
{
    int const P = size();
    MpiWorld* const self = this;

    for (int r = 0; r != P; ++r)
    {
        ranks[r].th = std::thread([self, r, &body] {
            current_world() = self;
            current_rank() = r;
            current_ctx() = &self->ranks[r].ctx;
            {
                std::unique_lock<std::mutex> lock(self->m_);
                self->cv_.wait(lock, [&] { return self->baton_ == r; });
            }
            Rank& me = self->ranks[r];
            try
            {
                if (me.kill) throw killed{};
                me.st = RUNNABLE;
                body(r);
                me.st = DONE;
            }
            catch (killed const&)
            {
                me.st = DEAD;
                me.died_killed = true;
            }
            catch (std::exception const& e)
            {
                me.st = DEAD;
                me.what = e.what();
            }
            catch (...)
            {
                me.st = DEAD;
                me.what = "unknown exception";
            }
            std::unique_lock<std::mutex> lock(self->m_);
            self->baton_ = -1;
            self->cv_.notify_all();
        });
    }

    if (step_budget == 0) step_budget = 1000000;

    for (;;)
    {
        std::vector<int> runnable;
        std::vector<int> stalled;
        int live = 0, waiting = 0, done = 0;

        for (int r = 0; r != P; ++r)
        {
            Rank& k = ranks[r];
            if (k.st == NEW || k.st == RUNNABLE)
            {
                ++live;
                if (k.stall != 0) stalled.push_back(r);
                else runnable.push_back(r);
            }
            else if (k.st == WAITING)
            {
                ++live;
                ++waiting;
            }
            else if (k.st == DONE)
            {
                ++done;
            }
        }

        if (live == 0) break;

        if (++steps > step_budget && !hang)
        {
            hang = true;
            hang_why = "step budget exceeded";
            aborted = true;
            for (auto& k : ranks) k.kill = true;
        }

        if (!runnable.empty() || !stalled.empty())
        {
            for (int r : stalled) --ranks[r].stall;

            if (runnable.empty()) continue;

            // maybe stall one of the candidates for a few steps (a slow node)
            if (stall_p_ > 0 && runnable.size() > 1 && rng_.chance(stall_p_))
            {
                std::size_t const i = rng_.below(runnable.size());
                ranks[runnable[i]].stall = 1 + rng_.below(4 * P);
                ++stalls_fired;
                runnable.erase(runnable.begin() + i);
            }

            int const r = runnable[rng_.below(runnable.size())];
            give(r);

            if (ranks[r].st == DEAD && !aborted)
            {
                // a process died: mpirun takes the whole job down
                aborted = true;
                for (auto& k : ranks) k.kill = true;
            }

            if (aborted)
            {
                for (auto& k : ranks)
                {
                    if (k.st == WAITING) k.st = RUNNABLE;
                }
                arrival_.clear();
            }

            continue;
        }

        // nobody can run: either a complete collective or a hang
        if (aborted)
        {
            for (auto& k : ranks)
            {
                if (k.st == WAITING) k.st = RUNNABLE;
            }
            arrival_.clear();
            continue;
        }

        // complete every collective whose whole communicator is waiting in it with matching arguments
        bool progressed = false;
        std::string why;
        std::vector<char> seen(P, 0);

        for (int r = 0; r != P; ++r)
        {
            if (seen[r] || ranks[r].st != WAITING) continue;
            std::vector<int> const members = members_of(ranks[r].comm, r);
            bool complete = true, match = true;
            for (int mbr : members)
            {
                seen[mbr] = 1;
                if (ranks[mbr].st != WAITING || ranks[mbr].comm != ranks[r].comm) complete = false;
                else if (ranks[mbr].count != ranks[r].count || ranks[mbr].dtype != ranks[r].dtype) match = false;
            }
            if (!complete)
            {
                why = "rank(s) returned while others wait in a collective";
                continue;
            }
            if (!match)
            {
                why = "collectives do not match (count/datatype differ between ranks)";
                continue;
            }
            reduce_group(members);
            for (int mbr : members) ranks[mbr].st = RUNNABLE;
            progressed = true;
        }

        if (!progressed)
        {
            hang = true;
            hang_why = why.empty() ? "nobody can run" : why;
            aborted = true;
            for (auto& k : ranks)
            {
                k.kill = true;
                if (k.st == WAITING) k.st = RUNNABLE;
            }
            arrival_.clear();
            continue;
        }
    }

    for (auto& k : ranks)
    {
        if (k.th.joinable()) k.th.join();
    }
}

}

extern "C" int MPI_Comm_rank(MPI_Comm comm, int* rank)
{
    sim::MpiWorld* w = sim::current_world();
    *rank = (w != nullptr) ? w->comm_rank(comm, sim::current_rank()) : 0;
    return MPI_SUCCESS;
}

extern "C" int MPI_Comm_size(MPI_Comm comm, int* size)
{
    sim::MpiWorld* w = sim::current_world();
    *size = (w != nullptr) ? w->comm_size(comm, sim::current_rank()) : 1;
    return MPI_SUCCESS;
}

extern "C" int MPI_Allreduce(void const* sendbuf, void* recvbuf, int count, MPI_Datatype datatype,
    MPI_Op, MPI_Comm comm)
{
    sim::MpiWorld* w = sim::current_world();

    if (w == nullptr)
    {
        // single process without a world: the reduction over one rank is the identity
        (void) sendbuf;
        return MPI_SUCCESS;
    }

    return w->allreduce(sim::current_rank(), recvbuf, count, datatype, comm);
}
