// one instantiation of Runner<T, E>; compiled once per (HS_NT, HS_ENG)
#include "runner.hpp"

#if HS_NT == 0
using HT = float;
#elif HS_NT == 1
using HT = double;
#else
using HT = long double;
#endif

#if HS_ENG == 0
using HE = sim::ScriptEngine<64>;
#elif HS_ENG == 1
using HE = sim::ScriptEngine<32>;
#elif HS_ENG == 2
using HE = sim::CountingEngine<std::minstd_rand0>;
#elif HS_ENG == 3
using HE = sim::CountingEngine<std::minstd_rand>;
#elif HS_ENG == 4
using HE = sim::CountingEngine<std::mt19937>;
#elif HS_ENG == 5
using HE = sim::CountingEngine<std::mt19937_64>;
#elif HS_ENG == 6
using HE = sim::CountingEngine<std::ranlux24_base>;
#elif HS_ENG == 7
using HE = sim::CountingEngine<std::ranlux48_base>;
#elif HS_ENG == 8
using HE = sim::CountingEngine<std::ranlux24>;
#elif HS_ENG == 9
using HE = sim::CountingEngine<std::ranlux48>;
#elif HS_ENG == 10
using HE = sim::CountingEngine<std::knuth_b>;
#else
using HE = sim::ScriptEngine<14>;
#endif

#define HS_CAT2(a, b, c) a##b##_##c
#define HS_CAT(a, b, c) HS_CAT2(a, b, c)

namespace sim
{
std::unique_ptr<IWorld> HS_CAT(make_world_, HS_NT, HS_ENG)()
{
    return std::unique_ptr<IWorld>(new Runner<HT, HE>(HS_NT, HS_ENG));
}
}
