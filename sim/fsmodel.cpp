#ifndef _GNU_SOURCE
#define _GNU_SOURCE
#endif
#include "fsmodel.hpp"
#include "ctx.hpp"
#include "mpishim.hpp"

#include <cerrno>
#include <cstdio>
#include <cstring>
#include <dlfcn.h>
#include <sys/mman.h>
#include <sys/uio.h>
#include <unistd.h>

namespace sim
{

FsModel& fs()
{
    static FsModel m;
    return m;
}

static bool ours(char const* path)
{
    return path != nullptr && std::strncmp(path, "/hepsim/", 8) == 0;
}

static Fault const* fault_at(FsModel& m, std::uint64_t ev, int kind)
{
    for (auto const& f : m.faults)
    {
        if (f.kind == kind && f.a == ev) return &f;
    }
    return nullptr;
}

static void note_rank(FsModel& m)
{
    int const r = (current_world() != nullptr) ? current_rank() : 0;
    if (r < 30) m.writer_rank_mask |= (1 << r);
}

static void die(FsModel& m)
{
    m.dead = true;
    ++m.n_kill;
    Ctx* c = current_ctx();
    if (c != nullptr) c->kill_pending = true;
}

void enumerate_crash_states(std::map<std::string, std::string> files,
    std::vector<FsEvent> const& trace, CrashVisitor& v)
{
    std::string touched = "*";   // first state: everything is new
    std::string touched2;        // a rename changes two paths: reported as "*"

    for (std::size_t e = 0; e != trace.size(); ++e)
    {
        FsEvent const& ev = trace[e];
        v.state(e, 0, files, touched);   // killed just before this call took effect
        touched.clear();

        switch (ev.kind)
        {
        case FS_OPEN_TRUNC:
            if (ev.err == 0)
            {
                files[ev.path] = std::string();
                touched = ev.path;
            }
            break;
        case FS_OPEN_OTHER:
            if (ev.err == 0 && !files.count(ev.path))
            {
                files[ev.path] = std::string();
                touched = ev.path;
            }
            break;
        case FS_WRITE:
        {
            std::vector<std::size_t> pre;
            v.prefixes(e, ev.data.size(), pre);
            std::string& content = files[ev.path];
            std::size_t const base = content.size();
            std::size_t done = 0;
            for (std::size_t p : pre)
            {
                if (p <= done || p >= ev.data.size()) continue;
                content.append(ev.data, done, p - done);
                done = p;
                v.state(e, p, files, ev.path);
            }
            content.resize(base);
            content.append(ev.data);
            if (!ev.data.empty()) touched = ev.path;
            break;
        }
        case FS_CLOSE:
            break;
        case FS_RENAME:
            if (ev.err == 0 && files.count(ev.path) && ev.path != ev.path2)
            {
                files[ev.path2] = files[ev.path];
                files.erase(ev.path);
                touched = "*";
            }
            break;
        case FS_REMOVE:
            if (ev.err == 0)
            {
                files.erase(ev.path);
                touched = ev.path;
            }
            break;
        default:
            break;
        }
    }

    v.state(trace.size(), ~0ULL, files, touched);
}

CapBuf::int_type CapBuf::overflow(int_type ch)
{
    if (ch == traits_type::eof()) return traits_type::not_eof(ch);
    char const c = static_cast<char>(ch);
    return (xsputn(&c, 1) == 1) ? ch : traits_type::eof();
}

std::streamsize CapBuf::xsputn(char const* s, std::streamsize n)
{
    int const r = (current_world() != nullptr) ? current_rank() : 0;
    if (r < 30) writer_mask |= (1 << r);

    std::uint64_t const room = (limit > text.size()) ? limit - text.size() : 0;
    std::uint64_t const take = (static_cast<std::uint64_t>(n) < room) ? n : room;
    text.append(s, take);
    if (take != static_cast<std::uint64_t>(n)) ++failed_writes;
    return static_cast<std::streamsize>(take);
}

}

// ---------------------------------------------------------------------------------------------
// interposed libc entry points (the executable's definitions win over libc's for libstdc++ too)

using sim::fs;

extern "C" FILE* fopen64(char const* path, char const* mode)
{
    using fn = FILE* (*)(char const*, char const*);
    static fn real = reinterpret_cast<fn>(dlsym(RTLD_NEXT, "fopen64"));

    sim::FsModel& m = fs();

    if (!m.active || !sim::ours(path))
    {
        return real(path, mode);
    }

    sim::fs_sched_point();
    sim::note_rank(m);

    bool const trunc = (mode[0] == 'w');
    bool const rd = (mode[0] == 'r');
    std::uint64_t const ev = m.nevent++;
    ++m.n_events_total;

    sim::FsEvent e;
    e.kind = trunc ? sim::FS_OPEN_TRUNC : sim::FS_OPEN_OTHER;
    e.path = path;

    if (m.dead)
    {
        // the process is already dead in the model; keep the real code going without effect
        int const fd = memfd_create("hepsim-dead", 0);
        m.fds[fd] = path;
        return fdopen(fd, mode);
    }

    if (sim::Fault const* k = sim::fault_at(m, ev, sim::FLT_KILL_FS))
    {
        (void) k;
        e.err = -1;   // the call never took effect
        if (m.tracing) m.trace.push_back(e);
        sim::die(m);
        int const fd = memfd_create("hepsim-dead", 0);
        m.fds[fd] = path;
        return fdopen(fd, mode);
    }

    sim::Fault const* openfail = sim::fault_at(m, ev, sim::FLT_IO_ERROR);
    if (openfail == nullptr && !rd)
    {
        // "the n-th open for writing of this incarnation fails" (a = 2^62 + n)
        openfail = sim::fault_at(m, (1ULL << 62) + m.nopen, sim::FLT_IO_ERROR);
    }
    if (!rd) ++m.nopen;

    if (sim::Fault const* f = openfail)
    {
        ++m.n_ioerr;
        e.err = static_cast<int>(f->b);
        if (m.tracing) m.trace.push_back(e);
        errno = e.err;
        return nullptr;
    }

    if (rd && !m.files.count(path))
    {
        errno = ENOENT;
        return nullptr;
    }

    int const fd = memfd_create("hepsim", 0);

    if (trunc)
    {
        m.files[path] = std::string();
    }
    else if (!m.files.count(path))
    {
        m.files[path] = std::string();
    }

    if (rd)
    {
        using wfn = ssize_t (*)(int, void const*, size_t);
        static wfn realw = reinterpret_cast<wfn>(dlsym(RTLD_NEXT, "write"));
        std::string const& c = m.files[path];
        if (!c.empty()) (void) !realw(fd, c.data(), c.size());
        lseek(fd, 0, SEEK_SET);
    }
    else
    {
        m.fds[fd] = path;
    }

    if (m.tracing) m.trace.push_back(e);

    return fdopen(fd, mode);
}

static ssize_t model_write(int fd, char const* data, size_t n, std::string const path)
{
    sim::fs_sched_point();
    sim::FsModel& m = fs();
    std::uint64_t const ev = m.nevent++;
    ++m.n_events_total;

    if (m.dead)
    {
        return static_cast<ssize_t>(n);
    }

    (void) fd;
    sim::FsEvent e;
    e.kind = sim::FS_WRITE;
    e.path = path;

    if (sim::Fault const* k = sim::fault_at(m, ev, sim::FLT_KILL_FS))
    {
        // b >= 2^62 counts the bytes that are cut off at the end instead of those that are written
        size_t const cut = static_cast<size_t>(k->b & 0xffffffffULL);
        size_t const pre = (k->b >> 62) ? ((cut < n) ? n - cut : 0) : ((k->b < n) ? k->b : n);
        e.data.assign(data, pre);
        m.files[path].append(data, pre);
        if (m.tracing) m.trace.push_back(e);
        sim::die(m);
        return static_cast<ssize_t>(n);
    }

    if (sim::fault_at(m, ev, sim::FLT_EINTR))
    {
        ++m.n_eintr;
        e.err = EINTR;
        if (m.tracing) m.trace.push_back(e);
        errno = EINTR;
        return -1;
    }

    if (sim::Fault const* f = sim::fault_at(m, ev, sim::FLT_IO_ERROR))
    {
        ++m.n_ioerr;
        e.err = static_cast<int>(f->b);
        if (m.tracing) m.trace.push_back(e);
        errno = e.err;
        return -1;
    }

    size_t take = n;

    if (sim::Fault const* f = sim::fault_at(m, ev, sim::FLT_SHORT_WRITE))
    {
        if (n > 1)
        {
            take = 1 + static_cast<size_t>(f->b % (n - 1));
            ++m.n_short;
        }
    }

    e.data.assign(data, take);
    m.files[path].append(data, take);
    if (m.tracing) m.trace.push_back(e);
    return static_cast<ssize_t>(take);
}

extern "C" ssize_t write(int fd, void const* buf, size_t n)
{
    using fn = ssize_t (*)(int, void const*, size_t);
    static fn real = reinterpret_cast<fn>(dlsym(RTLD_NEXT, "write"));

    sim::FsModel& m = fs();

    if (m.active)
    {
        auto it = m.fds.find(fd);
        if (it != m.fds.end())
        {
            return model_write(fd, static_cast<char const*>(buf), n, it->second);
        }
    }

    return real(fd, buf, n);
}

extern "C" ssize_t writev(int fd, struct iovec const* iov, int cnt)
{
    using fn = ssize_t (*)(int, struct iovec const*, int);
    static fn real = reinterpret_cast<fn>(dlsym(RTLD_NEXT, "writev"));

    sim::FsModel& m = fs();

    if (m.active)
    {
        auto it = m.fds.find(fd);
        if (it != m.fds.end())
        {
            std::string all;
            for (int i = 0; i != cnt; ++i)
            {
                all.append(static_cast<char const*>(iov[i].iov_base), iov[i].iov_len);
            }
            return model_write(fd, all.data(), all.size(), it->second);
        }
    }

    return real(fd, iov, cnt);
}

extern "C" int fclose(FILE* fp)
{
    using fn = int (*)(FILE*);
    static fn real = reinterpret_cast<fn>(dlsym(RTLD_NEXT, "fclose"));

    sim::FsModel& m = fs();

    if (m.active && fp != nullptr && m.fds.count(fileno(fp)))
    {
        sim::fs_sched_point();
    }

    if (m.active && fp != nullptr)
    {
        int const fd = fileno(fp);
        auto it = m.fds.find(fd);
        if (it != m.fds.end())
        {
            std::uint64_t const ev = m.nevent++;
            ++m.n_events_total;
            sim::FsEvent e;
            e.kind = sim::FS_CLOSE;
            e.path = it->second;
            m.fds.erase(it);
            int ret = 0;

            if (!m.dead)
            {
                if (sim::fault_at(m, ev, sim::FLT_KILL_FS))
                {
                    if (m.tracing) m.trace.push_back(e);
                    sim::die(m);
                }
                else if (sim::Fault const* f = sim::fault_at(m, ev, sim::FLT_IO_ERROR))
                {
                    ++m.n_ioerr;
                    e.err = static_cast<int>(f->b);
                    if (m.tracing) m.trace.push_back(e);
                    ret = EOF;
                }
                else if (m.tracing)
                {
                    m.trace.push_back(e);
                }
            }

            int const r = real(fp);
            if (ret != 0)
            {
                errno = e.err;
                return EOF;
            }
            return r;
        }
    }

    return real(fp);
}

extern "C" int rename(char const* from, char const* to)
{
    using fn = int (*)(char const*, char const*);
    static fn real = reinterpret_cast<fn>(dlsym(RTLD_NEXT, "rename"));

    sim::FsModel& m = fs();

    if (!m.active || !sim::ours(from) || !sim::ours(to))
    {
        return real(from, to);
    }

    sim::fs_sched_point();
    sim::note_rank(m);
    std::uint64_t const ev = m.nevent++;
    ++m.n_events_total;

    if (m.dead) return 0;

    sim::FsEvent e;
    e.kind = sim::FS_RENAME;
    e.path = from;
    e.path2 = to;

    if (sim::fault_at(m, ev, sim::FLT_KILL_FS))
    {
        e.err = -1;
        if (m.tracing) m.trace.push_back(e);
        sim::die(m);
        return 0;
    }

    if (sim::Fault const* f = sim::fault_at(m, ev, sim::FLT_IO_ERROR))
    {
        ++m.n_ioerr;
        e.err = static_cast<int>(f->b);
        if (m.tracing) m.trace.push_back(e);
        errno = e.err;
        return -1;
    }

    auto it = m.files.find(from);
    if (it == m.files.end())
    {
        e.err = ENOENT;
        if (m.tracing) m.trace.push_back(e);
        errno = ENOENT;
        return -1;
    }

    if (std::strcmp(from, to) != 0)
    {
        m.files[to] = it->second;
        m.files.erase(from);
    }
    if (m.tracing) m.trace.push_back(e);
    return 0;
}

static int model_remove(char const* path)
{
    sim::fs_sched_point();
    sim::FsModel& m = fs();
    sim::note_rank(m);
    std::uint64_t const ev = m.nevent++;
    ++m.n_events_total;

    if (m.dead) return 0;

    sim::FsEvent e;
    e.kind = sim::FS_REMOVE;
    e.path = path;

    if (sim::fault_at(m, ev, sim::FLT_KILL_FS))
    {
        e.err = -1;
        if (m.tracing) m.trace.push_back(e);
        sim::die(m);
        return 0;
    }

    if (!m.files.count(path))
    {
        e.err = ENOENT;
        if (m.tracing) m.trace.push_back(e);
        errno = ENOENT;
        return -1;
    }

    m.files.erase(path);
    if (m.tracing) m.trace.push_back(e);
    return 0;
}

extern "C" int remove(char const* path)
{
    using fn = int (*)(char const*);
    static fn real = reinterpret_cast<fn>(dlsym(RTLD_NEXT, "remove"));
    if (!fs().active || !sim::ours(path)) return real(path);
    return model_remove(path);
}

extern "C" int unlink(char const* path)
{
    using fn = int (*)(char const*);
    static fn real = reinterpret_cast<fn>(dlsym(RTLD_NEXT, "unlink"));
    if (!fs().active || !sim::ours(path)) return real(path);
    return model_remove(path);
}
