// dispatch to the instantiations of Runner<T, E> (generated list)
#include "world.hpp"

namespace sim
{
std::unique_ptr<IWorld> make_world_0_0();
std::unique_ptr<IWorld> make_world_0_1();
std::unique_ptr<IWorld> make_world_0_2();
std::unique_ptr<IWorld> make_world_0_3();
std::unique_ptr<IWorld> make_world_0_4();
std::unique_ptr<IWorld> make_world_0_5();
std::unique_ptr<IWorld> make_world_0_6();
std::unique_ptr<IWorld> make_world_0_7();
std::unique_ptr<IWorld> make_world_0_8();
std::unique_ptr<IWorld> make_world_0_9();
std::unique_ptr<IWorld> make_world_0_10();
std::unique_ptr<IWorld> make_world_0_11();
std::unique_ptr<IWorld> make_world_1_0();
std::unique_ptr<IWorld> make_world_1_1();
std::unique_ptr<IWorld> make_world_1_2();
std::unique_ptr<IWorld> make_world_1_3();
std::unique_ptr<IWorld> make_world_1_4();
std::unique_ptr<IWorld> make_world_1_5();
std::unique_ptr<IWorld> make_world_1_6();
std::unique_ptr<IWorld> make_world_1_7();
std::unique_ptr<IWorld> make_world_1_8();
std::unique_ptr<IWorld> make_world_1_9();
std::unique_ptr<IWorld> make_world_1_10();
std::unique_ptr<IWorld> make_world_1_11();
std::unique_ptr<IWorld> make_world_2_0();
std::unique_ptr<IWorld> make_world_2_1();
std::unique_ptr<IWorld> make_world_2_2();
std::unique_ptr<IWorld> make_world_2_3();
std::unique_ptr<IWorld> make_world_2_4();
std::unique_ptr<IWorld> make_world_2_5();
std::unique_ptr<IWorld> make_world_2_6();
std::unique_ptr<IWorld> make_world_2_7();
std::unique_ptr<IWorld> make_world_2_8();
std::unique_ptr<IWorld> make_world_2_9();
std::unique_ptr<IWorld> make_world_2_10();
std::unique_ptr<IWorld> make_world_2_11();

std::unique_ptr<IWorld> make_world(int nt, int eng)
{
    switch (nt * 16 + eng)
    {
    case 0: return make_world_0_0();
    case 1: return make_world_0_1();
    case 2: return make_world_0_2();
    case 3: return make_world_0_3();
    case 4: return make_world_0_4();
    case 5: return make_world_0_5();
    case 6: return make_world_0_6();
    case 7: return make_world_0_7();
    case 8: return make_world_0_8();
    case 9: return make_world_0_9();
    case 10: return make_world_0_10();
    case 11: return make_world_0_11();
    case 16: return make_world_1_0();
    case 17: return make_world_1_1();
    case 18: return make_world_1_2();
    case 19: return make_world_1_3();
    case 20: return make_world_1_4();
    case 21: return make_world_1_5();
    case 22: return make_world_1_6();
    case 23: return make_world_1_7();
    case 24: return make_world_1_8();
    case 25: return make_world_1_9();
    case 26: return make_world_1_10();
    case 27: return make_world_1_11();
    case 32: return make_world_2_0();
    case 33: return make_world_2_1();
    case 34: return make_world_2_2();
    case 35: return make_world_2_3();
    case 36: return make_world_2_4();
    case 37: return make_world_2_5();
    case 38: return make_world_2_6();
    case 39: return make_world_2_7();
    case 40: return make_world_2_8();
    case 41: return make_world_2_9();
    case 42: return make_world_2_10();
    case 43: return make_world_2_11();
    default: return nullptr;
    }
}
}
