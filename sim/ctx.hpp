// hepsim - per rank simulation context: everything the simulated environment (random engine, user
// code, callback, MPI shim, file model) records about a run, and the switches faults are driven by.
#ifndef HEPSIM_CTX_HPP
#define HEPSIM_CTX_HPP

#include "plan.hpp"
#include "prng.hpp"

#include <cstdint>
#include <functional>
#include <map>
#include <string>
#include <vector>

namespace sim
{

struct killed
{
};

constexpr std::size_t MAXD = 192;   // largest number of dimensions the scripts handle

struct AddRec
{
    std::uint32_t dist = 0;
    bool two_d = false;
    long double x = 0, y = 0, value = 0;   // value as handed to projector.add (unweighted)
};

struct CallRec
{
    std::uint32_t iter = 0;       // session wide iteration index
    std::uint64_t idx = 0;        // local call index inside the iteration on this rank
    std::uint64_t pos = 0;        // raw outputs consumed (drawn + discarded) by this rank at entry
    std::uint64_t draws = 0;      // raw outputs drawn by this rank at entry
    std::uint64_t epos = 0;       // absolute position of the (scripted) engine after the last draw
    std::uint64_t last_raw = 0;   // the last raw output before entry (the selector draw for multi-channel)
    std::uint64_t raws[4] = {0, 0, 0, 0};   // standard engines: the four raw outputs before entry, oldest first
    std::uint32_t off_u = 0;      // arena offsets: random numbers / point (dims entries)
    std::uint32_t off_c = 0;      // coordinates (multi-channel, dims entries)
    std::uint32_t off_d = 0;      // densities written by the map (chan entries), valid if dens_calls
    std::uint32_t off_bin = 0;    // bins (vegas, dims entries)
    std::uint32_t off_add = 0, n_add = 0;
    std::uint32_t channel = 0;
    long double jac = 0;          // value returned by the map for calculate_densities
    long double w = 0;            // weight
    bool w_known = false;
    long double f = 0;            // value returned by the integrand
    bool asked_weight = false;
    bool entered = false;         // integrand entered
    std::uint8_t entries = 0;     // number of integrand entries for this point
    std::uint8_t dens_calls = 0;
    std::uint8_t dens_before = 0; // densities requested before the integrand ran
    std::uint8_t poison = 0;
};

// cheap per iteration statistics, kept even when detailed call logging is switched off
struct IterStat
{
    std::uint64_t calls = 0;      // integrand entries
    std::uint64_t nz = 0;         // non-zero values returned
    std::uint64_t fin = 0;        // of those, finite after weighting (only counted when the weight is known)
    std::uint64_t first_pos = 0;  // raw outputs consumed when the first point of the iteration was handed over
    bool weights_known = true;
};

struct CbRec
{
    std::uint64_t nresults = 0;   // chkpt.results().size() seen by the callback
    std::uint64_t calls_logged = 0;   // integrand calls logged on this rank up to this invocation
    bool ret = true;
    std::string text;             // serialised checkpoint (if text logging is on)
};

struct CollRec
{
    std::uint64_t count = 0;
    int dtype = 0;
    std::uint64_t pos = 0;        // raw outputs consumed when entering
    std::uint64_t calls_logged = 0;
};

struct Ctx
{
    Plan const* plan = nullptr;
    int rank = 0;
    int world = 1;

    // ---- random engine side
    std::uint64_t pos = 0;        // drawn + discarded
    std::uint64_t draws = 0;
    std::uint64_t discards = 0;   // number of discard() calls
    std::uint64_t discarded = 0;  // raw outputs discarded
    bool counting = false;        // only count while an integrator is running
    int genmode = 0;              // 0 hash, 1 lattice
    std::uint64_t lat_n = 0, lat_dims = 0, lat_active = 0, lat_percall = 0, lat_base = 0, lat_points = 0;
    std::vector<std::uint64_t> lat_selector;   // raw selector value per lattice block
    std::map<std::uint64_t, std::uint64_t> forced;   // engine position -> raw value
    std::uint64_t forced_hits = 0;
    std::uint64_t last_epos = 0, last_raw = 0, last_stream = 0;
    std::uint64_t raw_ring[4] = {0, 0, 0, 0};   // standard engines: the last four raw outputs (slot draws % 4)

    // ---- user code side
    std::uint32_t cur_iter = 0;
    std::uint64_t cur_call = 0;
    std::uint32_t dims = 0, chan = 0, mapd = 0;
    std::vector<CallRec> calls;
    std::vector<long double> arena;
    std::vector<std::uint32_t> bins;
    std::vector<AddRec> adds;
    std::vector<CbRec> cbs;
    std::map<std::uint32_t, IterStat> stats;
    std::vector<CollRec> colls;
    std::vector<std::string> proto;    // protocol violations found inline (C17)
    std::vector<std::vector<std::uint64_t>> enabled_by_iter;   // enabled_channels as seen by the map
    bool log_text = true;
    bool log_calls = true;             // switch off detailed logging for volume runs

    // pointer identities for the buffer checks of C17 (never hashed, never logged)
    void const* addr_u = nullptr;
    void const* addr_c = nullptr;
    void const* addr_d = nullptr;
    std::uint64_t sum_u = 0, sum_c = 0, sum_d = 0;

    // ---- faults
    bool kill_armed = false;
    std::uint32_t kill_iter = 0;
    std::uint64_t kill_call = 0;
    bool kill_pending = false;         // set by the file model: die at the next integrand call
    bool was_killed = false;
    std::uint64_t poison_fired = 0;
    std::vector<Fault> poison_calls;   // FLT_POISON entries
    std::uint64_t poison_q = 0;        // hash density
    std::uint64_t poison_mask = 0;
    bool zero_instead = false;         // twin run: poisoned calls return zero and add nothing
    std::uint64_t user_stop = ~0ULL;   // scripted user callback returns false at this nresults
    bool cmap_sparse = false;          // the scripted map writes the densities of enabled channels only
    std::uint64_t base_results = 0;   // results the checkpoint held when this run started
    // unusual but legal user code: the integrand runs a small integration of its own (same template
    // instantiation) on some of its calls
    bool nested = false;
    bool in_nested = false;
    std::uint64_t nested_done = 0;
    void (*nested_hook)(void*) = nullptr;
    void* nested_arg = nullptr;

    void reset_logs()
    {
        calls.clear();
        arena.clear();
        bins.clear();
        adds.clear();
        cbs.clear();
        stats.clear();
        colls.clear();
        proto.clear();
        enabled_by_iter.clear();
    }

    void note(std::string const& s)
    {
        if (proto.size() < 32) proto.push_back(s);
    }
};

// the context of the party that is running right now (one per rank thread)
Ctx*& current_ctx();

inline Ctx& ctx() { return *current_ctx(); }

// integrand / map scripts, shared by all numeric types (computed in long double)
long double script_value(Plan const& p, long double const* x, std::size_t n, std::uint32_t channel,
    std::uint64_t point_hash);
std::uint64_t hash_point(long double const* u, std::size_t n, std::uint32_t channel);
// kind of poison (0 = none) for this call
int poison_kind(Ctx& c, std::uint64_t point_hash);
// projected coordinate(s) for distribution d
void script_project(Plan const& p, std::size_t d, long double const* x, std::size_t n,
    std::uint64_t point_hash, long double& px, long double& py);

// scripted channel map: piecewise linear maps on a dyadic mesh, see DESIGN.md 2.2
struct ChannelMap
{
    std::uint64_t chan = 0, dims = 0;
    // breaks[(c * dims + j)] = breakpoints t_0..t_B of channel c in dimension j
    std::vector<std::vector<long double>> breaks;
    // support of channel c in dimension 0: [slo[c], shi[c]] (density zero outside); default [0, 1]
    std::vector<long double> slo, shi;
    bool singular = false;   // one channel's density is infinite at some points
    bool early = false;      // densities are written when coordinates are requested
    bool sparse = false;     // the map writes the densities of the enabled channels only and leaves the rest alone
    bool all = false;        // the map fills in every channel's density, whether enabled or not (as the shipped examples do)
    int coord_ret = 0;       // value returned from the coordinate request (documented as ignored): 0 jacobian, 1 zero, 2 one, 3 NaN
    long double jac = 1;

    void build(Plan const& p);
    // coordinates of channel c for random numbers u
    void coords(std::uint32_t c, long double const* u, long double* x) const;
    // normalised density of channel c at x
    long double density(std::uint32_t c, long double const* x) const;
};

// derived user inputs
std::vector<long double> make_user_grid(Plan const& p);     // dims * (bins + 1) boundaries
std::vector<long double> make_user_weights(Plan const& p);  // chan weights, unnormalised, with zeros

}

#endif
