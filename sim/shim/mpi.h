/* hepsim MPI shim: exactly what hep-mc uses from <mpi.h>. P ranks are P threads of one process;
 * a seeded scheduler releases one at a time (see mpishim.cpp). */
#ifndef HEPSIM_SHIM_MPI_H
#define HEPSIM_SHIM_MPI_H

#ifdef __cplusplus
extern "C" {
#endif

typedef int MPI_Comm;
typedef int MPI_Datatype;
typedef int MPI_Op;

#define MPI_COMM_WORLD 0
#define MPI_SUCCESS 0

#define MPI_UNSIGNED 1
#define MPI_UNSIGNED_LONG 2
#define MPI_UNSIGNED_LONG_LONG 3
#define MPI_FLOAT 4
#define MPI_DOUBLE 5
#define MPI_LONG_DOUBLE 6

#define MPI_SUM 1
#define MPI_IN_PLACE ((void*) 1)

int MPI_Comm_rank(MPI_Comm comm, int* rank);
int MPI_Comm_size(MPI_Comm comm, int* size);
int MPI_Allreduce(void const* sendbuf, void* recvbuf, int count, MPI_Datatype datatype, MPI_Op op,
    MPI_Comm comm);

#ifdef __cplusplus
}
#endif

#endif
