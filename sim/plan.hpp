// hepsim - the plan: the single, explicit description of one simulated run. It is generated from a
// seed, written to disk before execution and is at the same time the replay file. Replaying never
// re-derives anything from the top level seed, it executes the plan.
#ifndef HEPSIM_PLAN_HPP
#define HEPSIM_PLAN_HPP

#include <cstdint>
#include <string>
#include <vector>

namespace sim
{

// integrators
enum { PLAIN = 0, VEGAS = 1, MULTI = 2 };
// numeric types
enum { NT_F = 0, NT_D = 1, NT_L = 2 };
// engines
enum
{
    E_SCRIPT64 = 0,
    E_SCRIPT32,
    E_MINSTD0,
    E_MINSTD,
    E_MT19937,
    E_MT19937_64,
    E_RANLUX24_BASE,
    E_RANLUX48_BASE,
    E_RANLUX24,
    E_RANLUX48,
    E_KNUTH_B,
    E_SCRIPT14,     // scripted engine with the range 2^14 (five raw draws per double)
    E_COUNT
};

char const* engine_name(int e);
char const* integ_name(int i);
char const* nt_name(int t);

// integrand scripts (all are functions of the point, never of the call number, so that serial and
// parallel runs see the same function)
enum
{
    F_POLY = 0,   // multilinear polynomial with positive coefficients
    F_PEAK,       // sharp positive peak
    F_SIGN,       // sign changing, zero mean
    F_ZERO,       // identically zero
    F_CONST,      // constant
    F_SPARSE,     // zero with probability fq (hash of the point), else polynomial
    F_SELECT,     // non-zero only in one bin / one channel
    F_LADDER,     // magnitudes spread over many orders
    F_COUNT
};

// fault kinds; every fault is attached to the operation it hits
enum
{
    FLT_RNG_FORCE = 0,    // a = engine position, v = raw value the engine returns there
    FLT_POISON,           // a = iteration, b = local call, c = kind (see POISON_*)
    FLT_POISON_HASH,      // v = density in 1/2^32 units, c = kind mask
    FLT_KILL_CALL,        // a = iteration (session wide), b = local call, c = rank
    FLT_KILL_FS,          // a = fs event number within the incarnation, b = byte prefix
    FLT_SHORT_WRITE,      // a = fs event, b = bytes accepted
    FLT_EINTR,            // a = fs event
    FLT_IO_ERROR,         // a = fs event, b = errno
    FLT_COUT_FAIL,        // a = bytes accepted before the stream buffer fails
    FLT_STALL,            // a = rank, b = scheduler steps
    FLT_COUNT
};

enum
{
    POISON_NAN = 1,       // integrand returns NaN
    POISON_PINF = 2,      // +inf
    POISON_NINF = 4,      // -inf
    POISON_WEIGHT = 8,    // finite value, map makes the weight non-finite / zero density
    POISON_DIST = 16,     // finite value returned, non-finite value handed to the projector
    POISON_HUGE = 32      // the largest finite value where the weight exceeds one: the product overflows
};

// operations of session scenarios
enum
{
    OP_RUN = 0,           // a = number of iterations to add
    OP_RELOAD,            // serialise, destroy, rebuild from text
    OP_ROLLBACK,          // a = k
    OP_REDO,              // the last iteration again, by hand, with a calls more
    OP_COUNT
};

struct Fault
{
    int kind = 0;
    std::uint64_t a = 0, b = 0, c = 0, v = 0;
};

struct Op
{
    int kind = 0;
    std::uint64_t a = 0;
};

struct DistSpec
{
    int two_d = 0;
    std::uint64_t bx = 1, by = 1;
    long double xmin = 0, xmax = 1, ymin = 0, ymax = 1;
    std::string name;
    int proj = 0;         // how the projected coordinate is derived from the point
};

struct Plan
{
    std::string scn;                 // scenario
    std::uint64_t seed = 0;          // where the plan came from (informational)
    std::uint64_t variant = 0;       // scenario specific sub-mode
    int integ = PLAIN;
    int nt = NT_D;
    int eng = E_SCRIPT64;
    std::uint64_t eseed = 1;
    std::uint64_t dims = 1;
    std::uint64_t mapd = 0;          // multi-channel: dimension of the coordinates (0: same as dims)
    std::uint64_t bins = 4;
    std::uint64_t chan = 2;
    std::vector<std::uint64_t> calls;
    long double alpha = 1.5L, beta = 0.25L, minw = 0.0L;
    int grid = 0;                    // 0 default, 1 user grid derived from gseed
    std::uint64_t gseed = 0;
    int wts = 0;                     // 0 default, 1 user weights derived from wseed
    std::uint64_t wseed = 0;
    int acc = 0;                     // 0: integrand without projector, 1: with projector
    std::vector<DistSpec> dists;
    int fk = F_POLY;
    std::uint64_t fseed = 0;
    std::uint64_t fq = 0;            // sparsity in 1/2^32
    int fmag = 0;                    // binary exponent of the overall magnitude
    int askw = 0;                    // 0 never, 1 always, 2 by hash of the point
    std::uint64_t mseed = 0;         // channel map shapes
    int jexp = 0;                    // jacobian factor 2^jexp
    int cbk = 0;                     // 0 built-in callback, 1 scripted user callback
    int mode = 0;                    // hep::callback_mode
    long double target = 0.0L;
    std::int64_t stop = -1;          // user callback returns false at this invocation (session wide)
    std::uint64_t P = 0;             // 0: serial API; >= 1 MPI API under the shim
    std::uint64_t sseed = 0;         // schedule seed
    int rorder = 0;                  // reduction: 0 rank order, 1 random permutation, 2 random tree
    int genmode = 0;                 // script engine: 0 hash stream, 1 midpoint lattice
    std::uint64_t ln = 0;            // lattice points per axis
    std::vector<Fault> faults;
    std::vector<Op> ops;
    std::vector<std::uint64_t> aux;  // scenario specific integers (interruption masks, ...)

    std::string to_text() const;
    static bool from_text(std::string const& text, Plan& out, std::string& err);

    std::uint64_t total_calls() const;
    std::uint64_t shape_hash() const;   // hash of everything but the informational seed
};

std::string ld_to_text(long double v);
long double ld_from_text(std::string const& s);

}

#endif
