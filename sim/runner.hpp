// hepsim - the part of the simulator that touches the real hep-mc templates. One instantiation per
// numeric type T and random engine E; everything it produces is type erased (world.hpp).
#ifndef HEPSIM_RUNNER_HPP
#define HEPSIM_RUNNER_HPP

#include "engines.hpp"
#include "fsmodel.hpp"
#include "mpishim.hpp"
#include "world.hpp"

#include "hep/mc.hpp"
#include "hep/mc-mpi.hpp"

#include <cmath>
#include <cstdio>
#include <cstdlib>
#include <iostream>
#include <limits>
#include <sstream>
#include <stdexcept>

namespace sim
{

long double script_poly_integral(Plan const& p, std::size_t n);

template <typename T>
inline std::uint64_t checksum(std::vector<T> const& v)
{
    std::uint64_t h = 7;
    for (auto const& x : v)
    {
        long double const l = x;
        unsigned char b[16] = {0};
        __builtin_memcpy(b, &l, 10);
        std::uint64_t lo, hi;
        __builtin_memcpy(&lo, b, 8);
        __builtin_memcpy(&hi, b + 8, 8);
        h = mix2(h ^ lo, hi);
    }
    return h;
}

// ------------------------------------------------------------------------------------------------
// scripted user code

template <typename T>
struct SimCore
{
    Plan const* plan = nullptr;
    ChannelMap const* cmap = nullptr;

    // called when a new point is handed to user code; creates the call record
    static CallRec& begin_call(Ctx& c)
    {
        if (c.kill_pending || (c.kill_armed && c.kill_iter == c.cur_iter && c.kill_call == c.cur_call))
        {
            c.was_killed = true;
            throw killed{};
        }

        IterStat& st = c.stats[c.cur_iter];
        if (st.calls == 0) st.first_pos = c.pos;
        ++st.calls;

        CallRec r;
        r.iter = c.cur_iter;
        r.idx = c.cur_call;
        r.pos = c.pos;
        r.draws = c.draws;
        r.epos = c.last_epos;
        r.last_raw = c.last_raw;
        for (std::uint64_t i = 0; i != 4; ++i) r.raws[i] = c.raw_ring[(c.draws + 1 + i) % 4];

        if (!c.log_calls)
        {
            // volume runs: one scratch record, nothing is kept
            c.arena.clear();
            c.bins.clear();
            c.adds.clear();
            if (c.calls.empty()) c.calls.push_back(r);
            else c.calls[0] = r;
            return c.calls[0];
        }

        c.calls.push_back(r);
        return c.calls.back();
    }

    // The user's integrand integrates something itself (same integrator, same types, another number of
    // dimensions) before it looks at its own point: called first thing on entry, so that everything the
    // integrand reads and logs afterwards is what the library still holds for the outer point.
    static void maybe_nest(Ctx& c, std::vector<T> const& x, std::uint32_t channel)
    {
        if (!c.nested || c.in_nested || c.nested_hook == nullptr) return;
        long double xl[MAXD];
        std::size_t const n = std::min<std::size_t>(x.size(), MAXD);
        for (std::size_t i = 0; i != n; ++i) xl[i] = x[i];
        std::uint64_t const h = hash_point(xl, n, channel);
        if ((mix2(h, 4242) % 8) != 0) return;
        c.in_nested = true;
        bool const counting = c.counting;
        c.counting = false;
        c.nested_hook(c.nested_arg);
        c.counting = counting;
        c.in_nested = false;
        ++c.nested_done;
    }

    // coordinate handed to projector.add for distribution d in "probe" mode
    static T probe_coordinate(DistSpec const& s, std::uint64_t h, bool y)
    {
        T const mn = static_cast<T>(y ? s.ymin : s.xmin);
        T const mx = static_cast<T>(y ? s.ymax : s.xmax);
        std::uint64_t const nb = y ? s.by : s.bx;
        T const size = (mx - mn) / T(nb);
        std::uint64_t const k = (h >> 8) % (nb + 1);
        T const edge = mn + T(k) * size;
        T const inf = std::numeric_limits<T>::infinity();

        switch (h % 16)
        {
        case 0: case 1: case 2: return mn + (T(k % nb) + T(0.5)) * size;   // interior
        case 3: case 4: return edge;                                      // an edge exactly
        case 5: return std::nextafter(edge, -inf);
        case 6: return std::nextafter(edge, inf);
        case 7: return mn + T(nb) * size;                                 // x_max
        case 8: return std::nextafter(mn, -inf);                          // just below x_min
        case 9: return mn - T(1000) * (mx - mn);
        case 10: return mx + T(1000) * (mx - mn);
        case 11: return mn + size * std::ldexp(T(1), 65);                 // (x - min) / size >= 2^64
        case 12: return inf;
        case 13: return -inf;
        case 14: return std::numeric_limits<T>::quiet_NaN();
        default: return mn + (T(k % nb) + T(0.25)) * size;
        }
    }

    // the body common to all three integrand kinds; `x` are the coordinates the script evaluates
    template <typename Point>
    T body(Ctx& c, CallRec& r, std::vector<T> const& x, std::uint32_t channel, Point const& point,
        hep::projector<T>* proj, bool weight_is_free) const
    {
        Plan const& p = *plan;
        std::size_t const n = x.size();

        if (!c.log_calls && weight_is_free && (p.fk == F_CONST || (p.fk == F_SIGN && n == 1 && p.fmag == 0)) &&
            proj == nullptr)
        {
            // volume runs (2^24 .. 2^32 calls): constant or linear integrand, nothing but the cheap
            // statistics
            IterStat& st = c.stats[c.cur_iter];
            T f;
            if (p.fk == F_CONST)
            {
                long double const zero = 0;
                f = static_cast<T>(script_value(p, &zero, 1, 0, 0));   // the constant of the script
            }
            else
            {
                f = static_cast<T>(2.0L * static_cast<long double>(x[0]) - 1.0L);   // what F_SIGN gives in one dimension
            }
            if (c.poison_q != 0)
            {
                // a few evaluations are not finite (decided by the point, as everywhere)
                long double const x0 = static_cast<long double>(x[0]);
                std::uint64_t const hb = mix2(static_cast<std::uint64_t>(std::ldexp(x0, 63)), 0x5eedULL);
                if ((hb & 0xffffffffULL) < c.poison_q)
                {
                    ++st.nz;
                    ++c.poison_fired;
                    r.f = std::numeric_limits<T>::quiet_NaN();
                    return std::numeric_limits<T>::quiet_NaN();
                }
            }
            if (f != T())
            {
                ++st.nz;
                ++st.fin;
            }
            r.f = f;
            return f;
        }

        long double xl[MAXD];
        for (std::size_t i = 0; i != n && i != MAXD; ++i) xl[i] = x[i];

        std::uint64_t const h = hash_point(xl, n, channel);
        int const pk = poison_kind(c, h);

        bool ask = weight_is_free;
        if (!weight_is_free)
        {
            ask = (p.askw == 1) || (p.askw == 2 && (mix2(h, 99) & 1));
        }

        long double const fl = script_value(p, xl, n, channel, h);
        T f = static_cast<T>(fl);
        r.poison = static_cast<std::uint8_t>(pk);

        bool skip_adds = false;

        if (pk != 0)
        {
            ++c.poison_fired;

            // weight / distribution poison needs a non-zero finite value (in both twin runs)
            if ((pk == POISON_WEIGHT || pk == POISON_DIST) && f == T()) f = T(1);

            if (c.zero_instead && pk == POISON_DIST)
            {
                // twin run: same value, nothing handed to the distributions
                skip_adds = true;
            }
            else if (c.zero_instead)
            {
                // twin run: this call returns zero and adds nothing
                if (ask)
                {
                    T const w = point.weight();
                    CallRec& rr = c.calls.back();
                    rr.asked_weight = !weight_is_free;
                    rr.w = w;
                    rr.w_known = true;
                }
                c.calls.back().f = 0;
                return T();
            }
            else if (pk == POISON_HUGE)
            {
                // a finite value whose product with the weight is not finite
                T const ww = point.weight();
                ask = true;
                if (std::isfinite(ww) && ww > T(1))
                {
                    f = (mix2(h, 77) & 1) ? std::numeric_limits<T>::max() : std::numeric_limits<T>::lowest();
                }
                else
                {
                    f = std::numeric_limits<T>::quiet_NaN();
                }
            }
            else if (pk == POISON_NAN) f = std::numeric_limits<T>::quiet_NaN();
            else if (pk == POISON_PINF) f = std::numeric_limits<T>::infinity();
            else if (pk == POISON_NINF) f = -std::numeric_limits<T>::infinity();
        }

        T w = T();
        bool w_known = false;

        if (ask)
        {
            w = point.weight();
            w_known = true;
        }

        std::uint32_t const off_add = static_cast<std::uint32_t>(c.adds.size());
        std::uint32_t n_add = 0;

        // a poisoned distribution value may come on top of a finite one for the same position (an
        // integrand that adds several contributions per point, one of which is not finite): the finite
        // one stays in both twin runs
        bool const double_add = (pk == POISON_DIST) && (mix2(h, 777) & 1) != 0;

        if (proj != nullptr && (!skip_adds || double_add))
        {
            for (std::size_t d = 0; d != p.dists.size(); ++d)
            {
                DistSpec const& s = p.dists[d];
                if (double_add && s.proj != 2)
                {
                    long double lx, ly;
                    script_project(p, d, xl, n, h, lx, ly);
                    AddRec a0;
                    a0.dist = static_cast<std::uint32_t>(d);
                    a0.two_d = s.two_d != 0;
                    a0.x = static_cast<T>(lx);
                    a0.y = static_cast<T>(ly);
                    a0.value = f;
                    c.adds.push_back(a0);
                    ++n_add;
                    if (s.two_d) proj->add(d, static_cast<T>(lx), static_cast<T>(ly), f);
                    else proj->add(d, static_cast<T>(lx), f);
                }
                if (skip_adds) continue;
                AddRec a;
                a.dist = static_cast<std::uint32_t>(d);
                a.two_d = s.two_d != 0;
                T px, py = T();
                T value = f;

                if (s.proj == 2)
                {
                    // attribution probe: distinct powers of two (divided by the weight, so that
                    // the weighted value is the power of two) at hand picked coordinates
                    std::uint64_t const hh = mix2(p.fseed ^ (c.cur_iter * 131 + d), c.cur_call);
                    px = probe_coordinate(s, hh, false);
                    if (s.two_d) py = probe_coordinate(s, mix64(hh), true);
                    T const ww = point.weight();
                    value = std::ldexp(T(1), static_cast<int>(c.cur_call % 20)) / ww;
                    w = ww;
                    w_known = true;
                }
                else
                {
                    long double lx, ly;
                    script_project(p, d, xl, n, h, lx, ly);
                    px = static_cast<T>(lx);
                    py = static_cast<T>(ly);
                    if (pk == POISON_DIST)
                    {
                        value = (mix2(h, d) & 1) ? std::numeric_limits<T>::quiet_NaN()
                                                 : std::numeric_limits<T>::infinity();
                    }
                    else if (pk != 0 && pk != POISON_WEIGHT)
                    {
                        value = f;   // non-finite integrand value also goes to the distribution
                    }
                }

                a.x = px;
                a.y = py;
                a.value = value;
                c.adds.push_back(a);
                ++n_add;

                if (s.two_d) proj->add(d, px, py, value);
                else proj->add(d, px, value);
            }
        }

        {
            IterStat& st = c.stats[c.cur_iter];
            if (f != T())
            {
                ++st.nz;
                if (w_known)
                {
                    if (std::isfinite(f * w)) ++st.fin;
                }
                else
                {
                    st.weights_known = false;
                }
            }
        }

        CallRec& rr = c.calls.back();
        rr.f = f;
        rr.asked_weight = (ask && !weight_is_free) || (!weight_is_free && n_add != 0);
        rr.w = w;
        rr.w_known = w_known;
        rr.off_add = off_add;
        rr.n_add = n_add;
        return f;
    }
};

template <typename T>
struct PlainFunc : SimCore<T>
{
    T operator()(hep::mc_point<T> const& pt) { return run(pt, nullptr); }
    T operator()(hep::mc_point<T> const& pt, hep::projector<T>& pr) { return run(pt, &pr); }

    T run(hep::mc_point<T> const& pt, hep::projector<T>* pr)
    {
        Ctx& c = ctx();
        if (c.in_nested) return T(0.5);   // the inner integration of a nesting integrand
        SimCore<T>::maybe_nest(c, pt.point(), 0);
        CallRec& r = this->begin_call(c);
        r.entered = true;
        r.entries = 1;
        r.off_u = static_cast<std::uint32_t>(c.arena.size());
        for (T v : pt.point()) c.arena.push_back(v);
        T const f = this->body(c, r, pt.point(), 0, pt, pr, true);
        ++c.cur_call;
        return f;
    }
};

template <typename T>
struct VegasFunc : SimCore<T>
{
    T operator()(hep::vegas_point<T> const& pt) { return run(pt, nullptr); }
    T operator()(hep::vegas_point<T> const& pt, hep::projector<T>& pr) { return run(pt, &pr); }

    T run(hep::vegas_point<T> const& pt, hep::projector<T>* pr)
    {
        Ctx& c = ctx();
        if (c.in_nested) return T(0.5) + pt.point()[0];   // the inner integration of a nesting integrand
        // the bins as they are on entry (what the library books the point under), the coordinates as
        // they are after the integrand's own nested integration (what the integrand evaluates)
        std::vector<std::size_t> const bins_on_entry(pt.bin());
        SimCore<T>::maybe_nest(c, pt.point(), 0);
        CallRec& r = this->begin_call(c);
        r.entered = true;
        r.entries = 1;
        r.off_u = static_cast<std::uint32_t>(c.arena.size());
        for (T v : pt.point()) c.arena.push_back(v);
        r.off_bin = static_cast<std::uint32_t>(c.bins.size());
        for (std::size_t b : bins_on_entry) c.bins.push_back(static_cast<std::uint32_t>(b));
        T const f = this->body(c, r, pt.point(), 0, pt, pr, true);
        ++c.cur_call;
        return f;
    }
};

template <typename T>
struct MultiMap
{
    Plan const* plan = nullptr;
    ChannelMap const* cmap = nullptr;

    // densities together with the coordinates: only where no fault needs to know the integrand's
    // verdict about the point first (weight poison is decided when the integrand runs)
    bool early_mode(Ctx const& c) const
    {
        if (!cmap->early) return false;
        if (c.poison_mask & (POISON_WEIGHT | POISON_HUGE)) return false;
        for (auto const& f : c.poison_calls)
        {
            if (f.c == POISON_WEIGHT) return false;
        }
        return true;
    }

    void fill_densities(Ctx const& c, long double const* x, std::vector<std::size_t> const& enabled,
        std::vector<T>& dens, bool wpoison, int how) const
    {
        // (a map like the one of the shipped example writes only the entries of the enabled channels)
        if (!cmap->sparse)
        {
            for (std::size_t j = 0; j != dens.size(); ++j) dens[j] = T();
        }

        if (cmap->all)
        {
            // a map that does not look at the list of enabled channels
            for (std::size_t j = 0; j != dens.size(); ++j)
            {
                long double d = cmap->jac * cmap->density(static_cast<std::uint32_t>(j), x);
                if (wpoison && how == 0) d = 0;
                dens[j] = static_cast<T>(d);
            }
        }
        else
        {
            for (std::size_t j : enabled)
            {
                long double d = cmap->jac * cmap->density(static_cast<std::uint32_t>(j), x);
                if (wpoison && how == 0) d = 0;   // zero density sum
                dens[j] = static_cast<T>(d);
            }
        }

        // some maps have points at which one channel's density is infinite (an integrable
        // singularity hit exactly): the weight is then exactly zero and the evaluation counts as zero
        if (cmap->singular && !wpoison && (mix2(c.sum_u, 31) % 16) == 0 && !enabled.empty())
        {
            dens[enabled[mix2(c.sum_u, 32) % enabled.size()]] = std::numeric_limits<T>::infinity();
        }
    }

    T operator()(std::size_t channel, std::vector<T> const& rn, std::vector<T>& coords,
        std::vector<std::size_t> const& enabled, std::vector<T>& dens, hep::multi_channel_map action)
    {
        Ctx& c = ctx();
        std::size_t const n = rn.size();
        long double u[MAXD], x[MAXD];

        if (c.in_nested)
        {
            // inner integration: identity map, unit densities
            if (action == hep::multi_channel_map::calculate_coordinates)
            {
                for (std::size_t i = 0; i != coords.size(); ++i) coords[i] = (i < n) ? rn[i] : T(0.5);
            }
            else
            {
                for (std::size_t j = 0; j != dens.size(); ++j) dens[j] = T();
                for (std::size_t j : enabled) dens[j] = T(1);
            }
            return T(1);
        }

        if (action == hep::multi_channel_map::calculate_coordinates)
        {
            CallRec& r = SimCore<T>::begin_call(c);
            r.channel = static_cast<std::uint32_t>(channel);
            r.off_u = static_cast<std::uint32_t>(c.arena.size());
            for (T v : rn) c.arena.push_back(v);

            // the enabled list: logged once per iteration, must not change inside it
            if (c.enabled_by_iter.size() <= c.cur_iter) c.enabled_by_iter.resize(c.cur_iter + 1);
            auto& en = c.enabled_by_iter[c.cur_iter];
            if (c.cur_call == 0 || en.empty())
            {
                en.assign(enabled.begin(), enabled.end());
            }
            else if (en.size() != enabled.size() || !std::equal(en.begin(), en.end(), enabled.begin()))
            {
                c.note("enabled-list-changed");
            }

            if (channel >= cmap->chan)
            {
                c.note("channel-out-of-range");
                channel = 0;
            }

            for (std::size_t i = 0; i != n; ++i) u[i] = rn[i];
            cmap->coords(static_cast<std::uint32_t>(channel), u, x);
            if (coords.size() != c.mapd) c.note("coordinate-buffer-size");
            // the map may produce fewer or more coordinates than it consumes random numbers
            for (std::size_t i = 0; i != coords.size(); ++i) coords[i] = (i < n) ? static_cast<T>(x[i]) : T(0.5);

            CallRec& rr = c.calls.back();
            rr.off_c = static_cast<std::uint32_t>(c.arena.size());
            for (T v : coords) c.arena.push_back(v);

            c.addr_u = &rn;
            c.addr_c = &coords;
            c.addr_d = &dens;
            c.sum_u = checksum(rn);
            c.sum_c = checksum(coords);

            if (early_mode(c))
            {
                for (std::size_t i = 0; i != n; ++i) x[i] = static_cast<long double>(static_cast<T>(x[i]));
                fill_densities(c, x, enabled, dens, false, 0);
                c.sum_d = checksum(dens);
            }

            // the value returned from the coordinate request is documented as ignored
            switch (cmap->coord_ret)
            {
            case 1: return T();
            case 2: return T(1);
            case 3: return std::numeric_limits<T>::quiet_NaN();
            default: return static_cast<T>(cmap->jac);
            }
        }

        // calculate_densities
        if (c.calls.empty())
        {
            c.note("densities-before-any-point");
            return T(1);
        }

        CallRec& r = c.calls.back();

        if (!r.entered) ++r.dens_before;
        if (r.channel != channel) c.note("densities-other-channel");
        if (c.addr_u != &rn || c.addr_c != &coords || c.addr_d != &dens) c.note("densities-other-buffers");
        if (c.sum_u != checksum(rn)) c.note("densities-random-numbers-changed");
        if (c.sum_c != checksum(coords)) c.note("densities-coordinates-changed");
        if ((r.dens_calls != 0 || early_mode(c)) && c.sum_d != checksum(dens)) c.note("densities-buffer-changed");

        // densities at the point the coordinates request produced (recomputed from the random numbers:
        // the coordinate vector may be shorter than the random number vector)
        for (std::size_t i = 0; i != n; ++i) u[i] = rn[i];
        cmap->coords(static_cast<std::uint32_t>(channel < cmap->chan ? channel : 0), u, x);
        for (std::size_t i = 0; i != n; ++i) x[i] = static_cast<long double>(static_cast<T>(x[i]));

        bool const wpoison = (r.poison == POISON_WEIGHT) && !c.zero_instead;
        int const how = static_cast<int>(mix2(c.sum_u, 5) % 3);
        T jac = static_cast<T>(cmap->jac);

        std::uint32_t off = static_cast<std::uint32_t>(c.arena.size());
        if (r.dens_calls == 0) r.off_d = off;

        // (a map that wrote the densities with the coordinates leaves the buffer alone now)
        if (!early_mode(c)) fill_densities(c, x, enabled, dens, wpoison, how);

        if (wpoison && how == 1) jac = std::numeric_limits<T>::infinity();
        if (wpoison && how == 2) jac = std::numeric_limits<T>::quiet_NaN();

        if (r.dens_calls == 0)
        {
            for (T v : dens) c.arena.push_back(v);
            c.calls.back().jac = jac;
        }

        c.sum_d = checksum(dens);
        if (c.calls.back().dens_calls != 255) ++c.calls.back().dens_calls;
        return jac;
    }
};

template <typename T>
struct MultiFunc : SimCore<T>
{
    T operator()(hep::multi_channel_point<T> const& pt) { return run(pt, nullptr); }
    T operator()(hep::multi_channel_point<T> const& pt, hep::projector<T>& pr) { return run(pt, &pr); }

    T run(hep::multi_channel_point<T> const& pt, hep::projector<T>* pr)
    {
        Ctx& c = ctx();
        if (c.in_nested) return T(0.5) + pt.coordinates()[0];   // the inner integration of a nesting integrand

        if (c.calls.empty() || c.calls.back().entered)
        {
            // an integrand entry without a preceding coordinate request
            if (!c.calls.empty()) ++c.calls.back().entries;
            c.note("integrand-without-coordinates");
            return T();
        }

        SimCore<T>::maybe_nest(c, pt.coordinates(), static_cast<std::uint32_t>(pt.channel()));

        CallRec& r = c.calls.back();
        r.entered = true;
        r.entries = 1;

        if (r.channel != pt.channel()) c.note("integrand-other-channel");
        if (c.addr_u != &pt.point()) c.note("integrand-other-random-numbers");
        if (c.addr_c != &pt.coordinates()) c.note("integrand-other-coordinates");
        if (c.sum_u != checksum(pt.point())) c.note("integrand-random-numbers-changed");
        if (c.sum_c != checksum(pt.coordinates())) c.note("integrand-coordinates-changed");

        T const f = this->body(c, r, pt.coordinates(), static_cast<std::uint32_t>(pt.channel()), pt, pr,
            false);
        ++c.cur_call;
        return f;
    }
};

// ------------------------------------------------------------------------------------------------
// callbacks

// the checkpoint type without the generators (what the library's own tests and examples instantiate
// the built-in callback with)
template <typename Chk>
struct base_of_chkpt
{
    using type = Chk;
};

template <typename E, typename Checkpoint>
struct base_of_chkpt<hep::chkpt_with_rng<E, Checkpoint>>
{
    using type = Checkpoint;
};

template <typename Chk>
struct SimCallback
{
    using Base = typename base_of_chkpt<Chk>::type;

    hep::callback<Chk> builtin;
    hep::callback<Base> builtin_base;   // takes the checkpoint by reference to its base class
    RunCtl const* ctl = nullptr;

    SimCallback(RunCtl const& c)
        : builtin(static_cast<hep::callback_mode>(c.mode), c.filename,
              static_cast<typename Chk::result_type::numeric_type>(c.target))
        , builtin_base(static_cast<hep::callback_mode>(c.mode), c.filename,
              static_cast<typename Chk::result_type::numeric_type>(c.target))
        , ctl(&c)
    {
    }

    bool operator()(Chk const& chk)
    {
        Ctx& c = ctx();
        CbRec rec;
        rec.nresults = chk.results().size();
        rec.calls_logged = c.calls.size();

        if (c.log_text || ctl->user_durable)
        {
            std::ostringstream out;
            chk.serialize(out);
            rec.text = out.str();
        }

        if (ctl->cbk == 0)
        {
            rec.ret = ctl->base_typed ? builtin_base(chk) : builtin(chk);
        }
        else
        {
            if (ctl->user_durable)
            {
                // a user callback that makes the text durable (atomically, in the file model)
                fs().files[ctl->filename] = rec.text;
            }
            ++invocations;
            // stateless: decides by what the checkpoint holds; stateful: by its own invocation counter
            // (the integrators take the callback by value once and call that one object every time)
            rec.ret = ctl->user_stateful ? (invocations + c.base_results != c.user_stop)
                                         : (rec.nresults != c.user_stop);
        }

        if (!c.log_text) rec.text.clear();
        c.cbs.push_back(rec);
        c.cur_iter = static_cast<std::uint32_t>(rec.nresults);
        c.cur_call = 0;
        return rec.ret;
    }

    std::uint64_t invocations = 0;
};

template <typename Chk>
struct SimMpiCallback
{
    using Base = typename base_of_chkpt<Chk>::type;

    hep::mpi_callback<Chk> builtin;
    hep::mpi_callback<Base> builtin_base;
    RunCtl const* ctl = nullptr;
    std::uint64_t invocations = 0;

    SimMpiCallback(RunCtl const& c)
        : builtin(static_cast<hep::callback_mode>(c.mode), c.filename,
              static_cast<typename Chk::result_type::numeric_type>(c.target))
        , builtin_base(static_cast<hep::callback_mode>(c.mode), c.filename,
              static_cast<typename Chk::result_type::numeric_type>(c.target))
        , ctl(&c)
    {
    }

    bool operator()(MPI_Comm comm, Chk const& chk)
    {
        Ctx& c = ctx();
        CbRec rec;
        rec.nresults = chk.results().size();
        rec.calls_logged = c.calls.size();

        if (c.log_text || (ctl->user_durable && c.rank == 0))
        {
            std::ostringstream out;
            chk.serialize(out);
            rec.text = out.str();
        }

        if (ctl->cbk == 0)
        {
            rec.ret = ctl->base_typed ? builtin_base(comm, chk) : builtin(comm, chk);
        }
        else
        {
            if (ctl->user_durable && c.rank == 0)
            {
                fs().files[ctl->filename] = rec.text;
            }
            ++invocations;
            rec.ret = ctl->user_stateful ? (invocations + c.base_results != c.user_stop) : (rec.nresults != c.user_stop);
        }

        if (!c.log_text) rec.text.clear();
        c.cbs.push_back(rec);
        c.cur_iter = static_cast<std::uint32_t>(rec.nresults);
        c.cur_call = 0;
        return rec.ret;
    }
};

// ------------------------------------------------------------------------------------------------
// views

template <typename T>
inline void view_mc(hep::mc_result<T> const& r, BinView& b)
{
    b.calls = r.calls();
    b.nz = r.non_zero_calls();
    b.fin = r.finite_calls();
    b.sum = r.sum();
    b.sumsq = r.sum_of_squares();
}

template <typename T>
inline void view_plain(hep::plain_result<T> const& r, ResultView& v)
{
    v.calls = r.calls();
    v.nz = r.non_zero_calls();
    v.fin = r.finite_calls();
    v.sum = r.sum();
    v.sumsq = r.sum_of_squares();
    v.value = r.value();
    v.variance = r.variance();
    v.error = r.error();

    for (auto const& d : r.distributions())
    {
        DistView dv;
        auto const& pa = d.parameters();
        dv.bx = pa.bins_x();
        dv.by = pa.bins_y();
        dv.xmin = pa.x_min();
        dv.ymin = pa.y_min();
        dv.sx = pa.bin_size_x();
        dv.sy = pa.bin_size_y();
        dv.name = pa.name();
        for (auto const& b : d.results())
        {
            BinView bv;
            view_mc(b, bv);
            dv.bins.push_back(bv);
        }
        if (dv.bx * dv.by == d.results().size() && dv.bx * dv.by < (1u << 20))
        {
            for (T m : hep::mid_points_x(d)) dv.midx.push_back(m);
            for (T m : hep::mid_points_y(d)) dv.midy.push_back(m);
        }
        v.dists.push_back(dv);
    }
}

template <typename T>
inline void view_pdf(hep::vegas_pdf<T> const& pdf, std::vector<ld>& out, u64& bins, u64& dims)
{
    bins = pdf.bins();
    dims = pdf.dimensions();
    out.clear();
    for (u64 d = 0; d != dims; ++d)
    {
        for (u64 b = 0; b != bins + 1; ++b) out.push_back(pdf.bin_left(d, b));
    }
}

inline std::vector<std::string> generator_lines(std::string const& text, u64 n)
{
    // the last n lines of the text
    std::vector<std::string> lines;
    std::size_t end = text.size();
    while (lines.size() != n)
    {
        std::size_t const nl = (end == 0) ? std::string::npos : text.rfind('\n', end - 1);
        if (nl == std::string::npos)
        {
            lines.insert(lines.begin(), text.substr(0, end));
            break;
        }
        lines.insert(lines.begin(), text.substr(nl + 1, end - nl - 1));
        end = nl;
    }
    return lines;
}

template <typename E>
inline bool engine_from_line(std::string const& line, E& e)
{
    std::istringstream in(line);
    in >> e;
    return !in.fail();
}

// ------------------------------------------------------------------------------------------------

template <typename T, typename E>
class Runner : public IWorld
{
public:
    using PChk = hep::plain_chkpt_with_rng<E, T>;
    using VChk = hep::vegas_chkpt_with_rng<E, T>;
    using MChk = hep::multi_channel_chkpt_with_rng<E, T>;

    Runner(int nt, int eng) : nt_(nt), eng_(eng) {}

    int nt() const override { return nt_; }
    int eng() const override { return eng_; }

    static hep::vegas_pdf<T> user_pdf(Plan const& p)
    {
        std::vector<ld> const g = make_user_grid(p);
        hep::vegas_pdf<T> pdf(p.dims, p.bins);
        for (u64 d = 0; d != p.dims; ++d)
        {
            T prev = T();
            for (u64 b = 1; b != p.bins; ++b)
            {
                T x = static_cast<T>(g[d * (p.bins + 1) + b]);
                // an empty bin of the script (two equal boundaries) stays empty; everything else stays
                // strictly increasing after rounding to T
                bool const empty = g[d * (p.bins + 1) + b] == g[d * (p.bins + 1) + b - 1];
                // (some of them get the smallest width there is instead)
                bool const sliver = empty && (mix2(p.gseed, 77000 + 1000 * d + b) % 2) == 0;
                if (!(x > prev)) x = (empty && !sliver) ? prev : std::nextafter(prev, T(2));
                if (x >= T(1)) x = std::nextafter(T(1), T(0));
                if (!(x > prev)) x = prev;
                pdf.set_bin_left(d, b, x);
                prev = x;
            }
        }
        return pdf;
    }

    static std::vector<T> user_weights(Plan const& p)
    {
        std::vector<T> w;
        for (ld v : make_user_weights(p)) w.push_back(static_cast<T>(v));
        return w;
    }

    void fresh(Plan const& p) override
    {
        integ_ = p.integ;
        pc_.reset();
        vc_.reset();
        mc_.reset();
        ran_ = false;
        assembled_ = false;
        E const gen(p.eseed);

        switch (p.integ)
        {
        case PLAIN:
            pc_.reset(new PChk(hep::make_plain_chkpt<T, E>(gen)));
            break;
        case VEGAS:
            if (p.grid == 1)
            {
                vc_.reset(new VChk(hep::make_vegas_chkpt<T, E>(user_pdf(p), static_cast<T>(p.alpha),
                    gen)));
            }
            else
            {
                vc_.reset(new VChk(hep::make_vegas_chkpt<T, E>(static_cast<std::size_t>(p.bins),
                    static_cast<T>(p.alpha), gen)));
            }
            break;
        default:
            if (p.wts == 1)
            {
                mc_.reset(new MChk(hep::make_multi_channel_chkpt<T, E>(user_weights(p),
                    static_cast<T>(p.minw), static_cast<T>(p.beta), gen)));
            }
            else
            {
                mc_.reset(new MChk(hep::make_multi_channel_chkpt<T, E>(static_cast<T>(p.minw),
                    static_cast<T>(p.beta), gen)));
            }
        }

        user_state_ = (p.integ == VEGAS && p.grid == 1) || (p.integ == MULTI && p.wts == 1);
    }

    bool transplant(Plan const& q) override
    {
        if (integ_ == VEGAS && vc_ && !vc_->results().empty())
        {
            E const gen(vc_->generator());
            VChk n(hep::make_vegas_chkpt<T, E>(vc_->results().front().pdf(), static_cast<T>(q.alpha), gen));
            for (auto const& r : vc_->results()) n.add(r, gen);
            vc_.reset(new VChk(std::move(n)));
            return true;
        }
        if (integ_ == MULTI && mc_ && !mc_->results().empty())
        {
            E const gen(mc_->generator());
            MChk n(hep::make_multi_channel_chkpt<T, E>(mc_->results().front().channel_weights(),
                static_cast<T>(q.minw), static_cast<T>(q.beta), gen));
            for (auto const& r : mc_->results()) n.add(r, gen);
            vc_.reset();
            mc_.reset(new MChk(std::move(n)));
            return true;
        }
        return false;
    }

    template <typename Base, typename Chk>
    static std::string base_roundtrip_of(Chk const& chk)
    {
        try
        {
            Base const b(chk);   // slices off the generators
            std::ostringstream o1;
            b.serialize(o1);
            std::istringstream in(o1.str());
            Base const r(in);
            if (in.fail()) return "stream failed while reading the checkpoint without generators";
            std::ostringstream o2;
            r.serialize(o2);
            if (o1.str() != o2.str()) return "checkpoint without generators reads back differently";
            if (r.results().size() != chk.results().size()) return "checkpoint without generators lost results";
        }
        catch (std::exception const& e)
        {
            return std::string("checkpoint without generators: ") + e.what();
        }
        return std::string();
    }

    std::string base_roundtrip() const override
    {
        if (assembled_) return std::string();
        switch (integ_)
        {
        case PLAIN: return pc_ ? base_roundtrip_of<hep::plain_chkpt<T>>(*pc_) : std::string();
        case VEGAS: return (vc_ && (ran_ || user_state_)) ? base_roundtrip_of<hep::vegas_chkpt<T>>(*vc_) : std::string();
        default: return (mc_ && (ran_ || user_state_)) ? base_roundtrip_of<hep::multi_channel_chkpt<T>>(*mc_) : std::string();
        }
    }

    bool load(Plan const& p, std::string const& text, LoadInfo& info) override
    {
        integ_ = p.integ;
        pc_.reset();
        vc_.reset();
        mc_.reset();
        // a checkpoint assembled from corner values carries grids and data no refinement may touch
        assembled_ = (p.scn == "durable" && p.variant == 1);
        std::istringstream in(text);

        try
        {
            switch (p.integ)
            {
            case PLAIN: pc_.reset(new PChk(hep::make_plain_chkpt<T, E>(in))); break;
            case VEGAS: vc_.reset(new VChk(hep::make_vegas_chkpt<T, E>(in))); break;
            default: mc_.reset(new MChk(hep::make_multi_channel_chkpt<T, E>(in)));
            }
        }
        catch (std::exception const& e)
        {
            info.threw = true;
            info.what = e.what();
            return false;
        }

        info.stream_ok = !in.fail();
        in.clear();
        in >> std::ws;
        info.only_ws_left = in.eof() || in.peek() == std::istringstream::traits_type::eof();
        // a checkpoint read from a non-empty text carries its state; one made from an empty text is
        // the default checkpoint, which must run before it can be serialised
        ran_ = !text.empty();
        user_state_ = ran_;
        return info.stream_ok;
    }

    std::string text() const override
    {
        std::ostringstream out;
        switch (integ_)
        {
        case PLAIN: pc_->serialize(out); break;
        case VEGAS: vc_->serialize(out); break;
        default: mc_->serialize(out);
        }
        return out.str();
    }

    u64 nresults() const override
    {
        switch (integ_)
        {
        case PLAIN: return pc_->results().size();
        case VEGAS: return vc_->results().size();
        default: return mc_->results().size();
        }
    }

    int rollback(u64 k) override
    {
        try
        {
            switch (integ_)
            {
            case PLAIN: pc_->rollback(k); break;
            case VEGAS: vc_->rollback(k); break;
            default: mc_->rollback(k);
            }
        }
        catch (std::out_of_range const&)
        {
            return 1;
        }
        catch (...)
        {
            return 2;
        }
        return 0;
    }

    bool assign_from(IWorld const& other) override
    {
        Runner const* o = dynamic_cast<Runner const*>(&other);
        if (o == nullptr || o->integ_ != integ_) return false;
        if (integ_ == PLAIN && pc_ && o->pc_) *pc_ = *o->pc_;
        else if (integ_ == VEGAS && vc_ && o->vc_) *vc_ = *o->vc_;
        else if (integ_ == MULTI && mc_ && o->mc_) *mc_ = *o->mc_;
        else return false;
        ran_ = o->ran_;
        user_state_ = o->user_state_;
        return true;
    }

    std::unique_ptr<IWorld> clone() const override
    {
        std::unique_ptr<Runner> r(new Runner(nt_, eng_));
        r->integ_ = integ_;
        r->ran_ = ran_;
        r->user_state_ = user_state_;
        r->assembled_ = assembled_;
        if (pc_) r->pc_.reset(new PChk(*pc_));
        if (vc_) r->vc_.reset(new VChk(*vc_));
        if (mc_) r->mc_.reset(new MChk(*mc_));
        return std::unique_ptr<IWorld>(r.release());
    }

    template <typename U>
    static U corner(u64 h)
    {
        using L = std::numeric_limits<U>;
        switch (h % 14)
        {
        case 0: return U(0);
        case 1: return -U(0);
        case 2: return L::denorm_min();
        case 3: return -L::denorm_min();
        case 4: return L::min();
        case 5: return L::max();
        case 6: return L::lowest();
        case 7: return U(1) / U(3);
        case 8: return std::nextafter(U(1), U(2));
        case 9: return -std::nextafter(U(1), U(0));
        case 10: return L::epsilon();
        default:
        {
            // a finite value with a random mantissa and a random exponent
            U const m = U(1) + static_cast<U>(mix64(h) >> 11) / static_cast<U>(9007199254740992.0);
            U const m2 = m + static_cast<U>(mix64(h + 1) >> 11) * L::epsilon() / static_cast<U>(9007199254740992.0);
            int const e = static_cast<int>(mix64(h + 2) % static_cast<u64>(L::max_exponent - L::min_exponent - 2))
                + L::min_exponent + 1;
            U const v = std::ldexp(m2, e - 1);
            return (mix64(h + 3) & 1) ? -v : v;
        }
        }
    }

    void assemble(Plan const& p, u64 seed) override
    {
        integ_ = p.integ;
        pc_.reset();
        vc_.reset();
        mc_.reset();
        assembled_ = true;
        ran_ = true;
        user_state_ = true;

        E gen(p.eseed);
        u64 h = seed;
        auto nxt = [&h]() { h = mix64(h); return h; };
        u64 const nres = p.calls.size();

        auto make_plain = [&](u64 k) {
            std::vector<hep::distribution_result<T>> ds;
            for (auto const& d : p.dists)
            {
                T const x0 = corner<T>(nxt());
                T x1 = corner<T>(nxt());
                // the parameters constructor derives the bin size from the range; keep it finite
                if (!std::isfinite(x1 - x0)) x1 = x0 + T(1);
                T const y0 = corner<T>(nxt()) / T(4);
                T y1 = corner<T>(nxt()) / T(4);
                if (!std::isfinite(y1 - y0)) y1 = y0 + T(1);
                hep::distribution_parameters<T> pa = d.two_d
                    ? hep::distribution_parameters<T>(d.bx, d.by, x0, x1, y0, y1, d.name)
                    : hep::distribution_parameters<T>(d.bx, x0, x1, d.name);
                std::vector<hep::mc_result<T>> bins;
                for (u64 i = 0; i != d.bx * (d.two_d ? d.by : 1); ++i)
                {
                    bins.emplace_back(p.calls[k], nxt() % 1000, nxt() % 1000, corner<T>(nxt()), corner<T>(nxt()));
                }
                ds.emplace_back(pa, bins);
            }
            return hep::plain_result<T>(ds, p.calls[k], nxt() % 100000, nxt() % 100000, corner<T>(nxt()),
                corner<T>(nxt()));
        };

        if (p.integ == PLAIN)
        {
            pc_.reset(new PChk(hep::make_plain_chkpt<T, E>(gen)));
            for (u64 k = 0; k != nres; ++k)
            {
                gen.discard(1 + nxt() % 7);
                pc_->add(make_plain(k), gen);
            }
        }
        else if (p.integ == VEGAS)
        {
            hep::vegas_pdf<T> pdf = (p.grid == 1) ? user_pdf(p) : hep::vegas_pdf<T>(p.dims, p.bins);
            vc_.reset(new VChk(hep::make_vegas_chkpt<T, E>(pdf, corner<T>(nxt()), gen)));
            for (u64 k = 0; k != nres; ++k)
            {
                hep::vegas_pdf<T> g(p.dims, p.bins);
                for (u64 d = 0; d != p.dims; ++d)
                {
                    for (u64 b = 0; b != p.bins + 1; ++b) g.set_bin_left(d, b, corner<T>(nxt()));
                }
                std::vector<T> adj;
                for (u64 i = 0; i != p.dims * p.bins; ++i) adj.push_back(corner<T>(nxt()));
                gen.discard(1 + nxt() % 7);
                vc_->add(hep::vegas_result<T>(make_plain(k), g, adj), gen);
            }
        }
        else
        {
            std::vector<T> w0 = user_weights(p);
            mc_.reset(new MChk(hep::make_multi_channel_chkpt<T, E>(w0, corner<T>(nxt()), corner<T>(nxt()), gen)));
            for (u64 k = 0; k != nres; ++k)
            {
                std::vector<T> adj, w;
                for (u64 i = 0; i != p.chan; ++i)
                {
                    adj.push_back(corner<T>(nxt()));
                    w.push_back(corner<T>(nxt()));
                }
                gen.discard(1 + nxt() % 7);
                mc_->add(hep::multi_channel_result<T>(make_plain(k), adj, w), gen);
            }
        }
    }

    // (a default VEGAS checkpoint has no grid before its first run; everything else has a text)
    bool serialisable() const { return ran_ || user_state_ || integ_ != VEGAS || nresults() != 0; }

    ChkptView view() const override
    {
        ChkptView v;
        v.integ = integ_;
        u64 n = nresults();

        if (integ_ == PLAIN)
        {
            for (auto const& r : pc_->results())
            {
                ResultView rv;
                view_plain(r, rv);
                v.results.push_back(rv);
            }
        }
        else if (integ_ == VEGAS)
        {
            v.alpha = vc_->alpha();
            for (auto const& r : vc_->results())
            {
                ResultView rv;
                view_plain(r, rv);
                view_pdf(r.pdf(), rv.pdf, rv.pbins, rv.pdims);
                for (T a : r.adjustment_data()) rv.adj.push_back(a);
                if (!assembled_ && r.adjustment_data().size() == rv.pbins * rv.pdims && rv.pbins >= 2)
                {
                    if (std::getenv("HEPSIM_DUMP"))
                    {
                        std::fprintf(stderr, "refine alpha=%La bins=%llu dims=%llu\n", (long double) vc_->alpha(), (unsigned long long) rv.pbins, (unsigned long long) rv.pdims);
                        for (ld x : rv.pdf) std::fprintf(stderr, "g %La\n", x);
                        for (ld x : rv.adj) std::fprintf(stderr, "d %La\n", x);
                    }
                    u64 b, d;
                    view_pdf(hep::vegas_refine_pdf(r.pdf(), vc_->alpha(), r.adjustment_data()),
                        rv.refined, b, d);
                }
                v.results.push_back(rv);
            }
            if (!assembled_ && (n != 0 || ran_ || user_state_))
            {
                v.has_next = true;
                view_pdf(vc_->pdf(), v.next, v.next_bins, v.next_dims);
            }
        }
        else
        {
            v.beta = mc_->beta();
            v.minw = mc_->min_weight();
            for (auto const& r : mc_->results())
            {
                ResultView rv;
                view_plain(r, rv);
                for (T a : r.adjustment_data()) rv.adj.push_back(a);
                for (T a : r.channel_weights()) rv.weights.push_back(a);
                if (!assembled_)
                {
                    for (T a : hep::multi_channel_refine_weights(r.channel_weights(), r.adjustment_data(),
                             mc_->min_weight(), mc_->beta()))
                    {
                        rv.refined.push_back(a);
                    }
                }
                v.results.push_back(rv);
            }
            if (!assembled_)
            {
                // (for a default checkpoint that never ran this is the empty vector)
                v.has_next = true;
                for (T a : mc_->channel_weights()) v.next.push_back(a);
            }
        }

        if (serialisable())
        {
            v.text = text();
            v.gen_texts = generator_lines(v.text, n + 1);
            if (!v.gen_texts.empty())
            {
                E last;
                if (engine_from_line(v.gen_texts.back(), last))
                {
                    v.gen_is_last = (last == current_generator());
                }
            }
        }

        return v;
    }

    E current_generator() const
    {
        switch (integ_)
        {
        case PLAIN: return pc_->generator();
        case VEGAS: return vc_->generator();
        default: return mc_->generator();
        }
    }

    bool same_generator(IWorld const& other) const override
    {
        auto const* o = dynamic_cast<Runner const*>(&other);
        return o != nullptr && o->current_generator() == current_generator();
    }

    std::vector<ld> first_state_input(Plan const& p) const override
    {
        std::vector<ld> out;
        if (p.integ == VEGAS)
        {
            if (p.grid == 1)
            {
                u64 b, d;
                view_pdf(user_pdf(p), out, b, d);
            }
            else
            {
                for (u64 d = 0; d != p.dims; ++d)
                {
                    for (u64 i = 0; i != p.bins + 1; ++i) out.push_back(T(i) / T(p.bins));
                }
            }
        }
        else if (p.integ == MULTI)
        {
            if (p.wts == 1)
            {
                for (T w : user_weights(p)) out.push_back(w);
            }
            else
            {
                std::size_t const channels = p.chan;
                for (u64 i = 0; i != p.chan; ++i) out.push_back(T(1.0) / channels);
            }
        }
        return out;
    }

    template <typename Results>
    static std::vector<ld> rel_errors_of(Results const& results)
    {
        using std::fabs;
        std::vector<ld> out;
        for (std::size_t k = 1; k <= results.size(); ++k)
        {
            auto const r = hep::accumulate<hep::weighted_with_variance>(results.begin(), results.begin() + k);
            T const val = r.value();
            T const err = r.error();
            T const rel = err / fabs(val);
            out.push_back(rel);
        }
        return out;
    }

    std::vector<ld> combined_rel_errors() const override
    {
        switch (integ_)
        {
        case PLAIN: return rel_errors_of(pc_->results());
        case VEGAS: return rel_errors_of(vc_->results());
        default: return rel_errors_of(mc_->results());
        }
    }

    UsageInfo usage() const override
    {
        UsageInfo u;
        u.predicted = hep::random_number_usage<T, E>();
        u.digits = std::numeric_limits<T>::digits;
        return u;
    }

    bool generator_advance_matches(u64 k, u64 n) const override
    {
        std::string const t = text();
        auto const lines = generator_lines(t, nresults() + 1);
        if (k + 1 >= lines.size()) return false;
        E before, after;
        if (!engine_from_line(lines[k], before) || !engine_from_line(lines[k + 1], after)) return false;
        before.discard(n);
        return before == after;
    }

    // ---- building the integrands

    static std::vector<hep::distribution_parameters<T>> dist_params(Plan const& p)
    {
        std::vector<hep::distribution_parameters<T>> v;
        for (auto const& d : p.dists)
        {
            if (d.two_d)
            {
                v.emplace_back(d.bx, d.by, static_cast<T>(d.xmin), static_cast<T>(d.xmax),
                    static_cast<T>(d.ymin), static_cast<T>(d.ymax), d.name);
            }
            else
            {
                v.emplace_back(d.bx, static_cast<T>(d.xmin), static_cast<T>(d.xmax), d.name);
            }
        }
        return v;
    }

    static void arm(Ctx& c, Plan const& p, RunCtl const& ctl, int rank, u64 base)
    {
        c.plan = &p;
        c.rank = rank;
        c.dims = static_cast<std::uint32_t>(p.dims);
        c.chan = static_cast<std::uint32_t>(p.chan);
        c.mapd = static_cast<std::uint32_t>(p.mapd ? p.mapd : p.dims);
        c.pos = c.draws = c.discards = c.discarded = 0;
        c.counting = true;
        c.genmode = ctl.genmode;
        c.lat_n = ctl.lat_n;
        c.lat_dims = p.dims;
        c.lat_active = ctl.lat_active ? ctl.lat_active : p.dims;
        c.lat_percall = p.dims + (p.integ == MULTI ? 1 : 0);
        c.lat_base = ctl.lat_base;
        c.lat_points = ctl.lat_points;
        c.lat_selector = ctl.lat_selector;
        c.forced.clear();
        for (auto const& f : ctl.forced) c.forced[f.a] = f.v;
        c.forced_hits = 0;
        c.cur_iter = static_cast<std::uint32_t>(base);
        c.cur_call = 0;
        c.log_text = ctl.log_text;
        c.log_calls = ctl.log_calls;
        c.kill_armed = ctl.kill_armed && ctl.kill_rank == rank;
        c.kill_iter = ctl.kill_iter;
        c.kill_call = ctl.kill_call;
        c.kill_pending = false;
        c.was_killed = false;
        c.poison_fired = 0;
        c.poison_calls = ctl.poison_calls;
        c.poison_q = ctl.poison_q;
        c.poison_mask = ctl.poison_mask;
        c.zero_instead = ctl.zero_instead;
        c.user_stop = ctl.user_stop;
        c.base_results = base;
        c.cmap_sparse = (p.integ == MULTI) && (mix2(p.mseed, 998) % 3 == 0);
        c.nested = ctl.nested;
        c.in_nested = false;
        c.nested_done = 0;
        c.nested_hook = nullptr;
        c.nested_arg = nullptr;
        c.reset_logs();
    }

    RunOut run(Plan const& p, std::vector<u64> const& calls64, RunCtl const& ctl) override;

    bool redo_last_by_hand(Plan const& p, u64 calls, RunCtl const& ctl) override;

    std::string user_chkpt_modes(Plan const& p, std::vector<u64> const& calls, RunCtl const& ctl) override;

    SerialRef serial_iteration(Plan const& p, u64 k, RunCtl const& ctl) const override;

private:
    template <bool Dist>
    void run_impl(Plan const& p, std::vector<std::size_t> const& calls, RunCtl const& ctl, RunOut& out);

    int nt_, eng_;
    int integ_ = PLAIN;
    bool ran_ = false;
    bool user_state_ = false;
    bool assembled_ = false;
    std::unique_ptr<PChk> pc_;
    std::unique_ptr<VChk> vc_;
    std::unique_ptr<MChk> mc_;
};

}

#include "runner_impl.hpp"

#endif
