// hepsim - scenarios: plan generators and executors
#ifndef HEPSIM_SCEN_HPP
#define HEPSIM_SCEN_HPP

#include "oracle.hpp"
#include "fsmodel.hpp"

#include <memory>
#include <string>

namespace sim
{

struct Scenario
{
    char const* name;
    // tier 0 = quick, 1 = thorough; focus = property the check is about (may bias the generator)
    Plan (*gen)(Rng& r, int tier, std::string const& focus);
    void (*exec)(Plan const& p, Report& rep);
};

Scenario const* find_scenario(std::string const& name);
std::vector<Scenario> const& all_scenarios();

struct GenOpts
{
    int integ = -1;            // -1 any
    int eng_class = 0;         // 0 any, 1 scripted only, 2 script64 only, 3 standard engines only
    int max_iters = 5;
    u64 max_calls = 300;
    bool allow_dists = true;
    bool allow_zero_calls = true;
    bool allow_degenerate = true;   // identically zero / constant integrands
    bool allow_high_dims = false;
    bool allow_tiny = false;        // magnitudes in the subnormal range of the numeric type
    int nt = -1;
};

void gen_world(Rng& r, Plan& p, GenOpts const& o);
void gen_dists(Rng& r, Plan& p, int count, bool probe);
RunCtl ctl_from_plan(Plan const& p);

// one world plus the oracles that are armed after every segment
struct Session
{
    Plan const& p;
    Report& rep;
    std::unique_ptr<IWorld> w;
    bool check = true;
    bool reload_usable = true;   // after a failed reload(): the text could be read (but differs)

    Session(Plan const& plan, Report& r);
    void fresh() { w->fresh(p); }
    RunOut run(std::vector<u64> const& calls, RunCtl const& ctl);
    // serialise, destroy, rebuild from text; arms the C05 oracle; returns false if the text could not
    // be read back
    bool reload(char const* where);
};

// the C05 durability oracle: `before` is the view of the object that was serialised to `text`
bool durability_check(Plan const& p, IWorld& fresh_world, ChkptView const& before, std::string const& text,
    Report& rep, char const* where);

std::string key_of(Plan const& p);
// binary exponent that puts values of order one into the subnormal range of the plan's numeric type
int tiny_exponent(Rng& r, int nt);
// the feature of the plan that is known to matter for text round trips (empty if none)
std::string roundtrip_class(Plan const& p);

}

#endif
