// hepsim - oracles over the recorded history of a run segment
#include "oracle.hpp"
#include "engines.hpp"

#include <algorithm>
#include <cmath>
#include <cstdarg>
#include <cstdio>
#include <cstdlib>

namespace sim
{

std::string fmt(char const* f, ...)
{
    char buf[1024];
    va_list ap;
    va_start(ap, f);
    std::vsnprintf(buf, sizeof buf, f, ap);
    va_end(ap);
    return buf;
}

ld eps_of(int nt)
{
    return (nt == NT_F) ? std::ldexp(1.0L, -23) : (nt == NT_D) ? std::ldexp(1.0L, -52) : std::ldexp(1.0L, -63);
}

ld round_to(int nt, ld v)
{
    if (nt == NT_F) return static_cast<ld>(static_cast<float>(v));
    if (nt == NT_D) return static_cast<ld>(static_cast<double>(v));
    return v;
}

ld canonical_from_raw64(int nt, u64 raw)
{
    ld r;
    if (nt == NT_F)
    {
        float const s = static_cast<float>(raw) / 18446744073709551616.0f;
        r = (s >= 1.0f) ? std::nextafter(1.0f, 0.0f) : s;
    }
    else if (nt == NT_D)
    {
        double const s = static_cast<double>(raw) / 18446744073709551616.0;
        r = (s >= 1.0) ? std::nextafter(1.0, 0.0) : s;
    }
    else
    {
        ld const s = static_cast<ld>(raw) / 18446744073709551616.0L;
        r = (s >= 1.0L) ? std::nextafter(1.0L, 0.0L) : s;
    }
    return r;
}

static char const* tname(Plan const& p) { return nt_name(p.nt); }

// magnitudes below this (other than zero) or above its reciprocal are outside the stated domain of
// the numeric type (results of underflow / overflow are not compared against references)
static ld tiny_of(int nt)
{
    return (nt == NT_F) ? std::ldexp(1.0L, -126 + 30) : (nt == NT_D) ? std::ldexp(1.0L, -1022 + 60) : std::ldexp(1.0L, -16382 + 70);
}

// the smallest subnormal of the type: the absolute rounding error of anything near zero
static ld denorm_of(int nt)
{
    return (nt == NT_F) ? std::ldexp(1.0L, -149) : (nt == NT_D) ? std::ldexp(1.0L, -1074) : std::ldexp(1.0L, -16445);
}

static ld huge_of(int nt)
{
    // 2^-8 of the largest finite number of the type
    return (nt == NT_F) ? std::ldexp(1.0L, 120) : (nt == NT_D) ? std::ldexp(1.0L, 1016) : std::ldexp(1.0L, 16376);
}

static bool in_domain(int nt, ld v)
{
    ld const a = std::fabs(v);
    return a == 0 || (a >= tiny_of(nt) && a <= huge_of(nt));
}

bool in_exponent_range(int nt, ld v) { return v != 0 && in_domain(nt, v); }

// A finite f * w whose square overflows the numeric type makes sums of squares and adjustment data
// infinite; what the refinement makes of that (weights that are not numbers, a selector without a
// valid answer) is outside every property's domain (C08: finite data; C09, C17: weight vectors).
// True if the state used by iteration `upto` or an earlier one descends from such data.
static bool state_after_overflow(ChkptView const& v, u64 upto)
{
    for (u64 k = 0; k < upto && k < v.results.size(); ++k)
    {
        for (ld a : v.results[k].adj)
        {
            if (!std::isfinite(a)) return true;
        }
    }
    return false;
}

void absorb(RunOut const& out, Report& rep)
{
    ++rep.runs;
    rep.hash.u64(out.killed);
    rep.hash.u64(out.hang);
    rep.hash.u64(out.threw);
    rep.hash.u64(out.results);
    rep.hash.u64(out.collectives);
    rep.hash.u64(out.interleave);
    rep.collectives += out.collectives;
    rep.sched_steps += out.steps;
    if (out.collectives != 0) rep.interleavings.push_back(out.interleave);

    for (auto const& c : out.ranks)
    {
        rep.calls += c.calls.size();
        rep.hash.u64(c.calls.size());
        for (auto const& r : c.calls)
        {
            rep.hash.u64(r.iter);
            rep.hash.u64(r.idx);
            rep.hash.u64(r.pos);
            rep.hash.u64(r.channel);
            rep.hash.ld(r.f);
            rep.hash.ld(r.w_known ? r.w : 0.0L);
            rep.hash.u64(r.dens_calls);
            for (std::uint32_t i = 0; i != c.dims; ++i) rep.hash.ld(c.arena[r.off_u + i]);
        }
        for (auto const& a : c.adds)
        {
            rep.hash.ld(a.x);
            rep.hash.ld(a.value);
        }
        for (auto const& cb : c.cbs)
        {
            rep.hash.u64(cb.nresults);
            rep.hash.u64(cb.ret);
            rep.hash.str(cb.text);
        }
        for (auto const& co : c.colls)
        {
            rep.hash.u64(co.count);
            rep.hash.u64(static_cast<u64>(co.dtype));
            rep.hash.u64(co.pos);
        }
        for (auto const& s : c.proto) rep.hash.str(s);
        if (c.forced_hits != 0) rep.faults["rng-force"] += c.forced_hits;
        if (c.poison_fired != 0 && !c.zero_instead) rep.faults["integrand-nonfinite"] += c.poison_fired;
        if (c.was_killed) rep.faults["kill-at-call"] += 1;
    }

    for (auto const& t : out.rank_texts) rep.hash.str(t);
    rep.hash.str(out.cout_text);
    if (out.stalls != 0) rep.faults["stall-rank"] += out.stalls;
    if (out.fs_yields != 0) rep.faults["descheduled-before-file-system-call"] += out.fs_yields;
    rep.hash.u64(out.fs_yields);
    if (out.reorders != 0) rep.faults["arrival-reorder"] += out.reorders;
}

void collect_iteration(RunOut const& out, u64 iter, IterCalls& ic)
{
    ic.recs.clear();
    for (auto const& c : out.ranks)
    {
        for (auto const& r : c.calls)
        {
            if (r.iter == iter) ic.recs.emplace_back(&c, &r);
        }
    }
}

bool call_weight(Ctx const& c, CallRec const& r, ResultView const& rv, ld& w)
{
    if (r.w_known)
    {
        w = r.w;
        return true;
    }

    if (r.dens_calls == 0 || rv.weights.empty()) return false;

    int const nt = c.plan->nt;
    ld total = 0;
    for (std::size_t j = 0; j != rv.weights.size(); ++j)
    {
        total = round_to(nt, total + round_to(nt, rv.weights[j] * c.arena[r.off_d + j]));
    }
    w = round_to(nt, r.jac / total);
    return true;
}

// -------------------------------------------------------------------------------------------------
// C02

void oracle_c02(Plan const& p, RunCtl const& ctl, std::vector<u64> const& seg_calls, RunOut const& out,
    ChkptView const& v, Report& rep)
{
    if (out.killed || out.hang || out.threw) return;

    ld const eps = eps_of(p.nt);
    std::string const key = fmt("%s %s", integ_name(p.integ), tname(p));
    (void) ctl;

    for (u64 k = out.base; k < out.results && k < v.results.size(); ++k)
    {
        ResultView const& rv = v.results[k];
        u64 const N = seg_calls[k - out.base];
        IterCalls ic;
        collect_iteration(out, k, ic);

        if (rv.calls != N)
        {
            rep.fail("C02", "calls-field", key, fmt("iteration %llu reports calls=%llu, asked for %llu",
                (unsigned long long) k, (unsigned long long) rv.calls, (unsigned long long) N));
        }

        if (N >= 1 && std::isfinite(rv.sum) && in_domain(p.nt, rv.sum / N) && in_domain(p.nt, rv.sumsq / N / N) &&
            in_domain(p.nt, (rv.sum / N) * (rv.sum / N) / N))
        {
            ld const E = rv.sum / N;
            if (!(std::fabs(rv.value - E) <= 4 * eps * std::fabs(E) + 2 * denorm_of(p.nt)))
            {
                rep.fail("C02", "value", key, fmt("iteration %llu: value=%.21Lg sum/N=%.21Lg",
                    (unsigned long long) k, rv.value, E));
            }

            if (N >= 2 && std::isfinite(rv.sumsq))
            {
                ld const a = rv.sumsq / N, b = E * E;
                ld const var = (a - b) / (N - 1);
                ld const scale = (a + b) / (N - 1);
                // (operands that underflow leave an absolute error of a few smallest subnormals)
                if (!(std::fabs(rv.variance - var) <= 16 * eps * scale + 8 * denorm_of(p.nt)))
                {
                    rep.fail("C02", "variance", key, fmt("iteration %llu: variance=%.21Lg reference=%.21Lg",
                        (unsigned long long) k, rv.variance, var));
                }
                if (rv.variance >= 0 && !(std::fabs(rv.error - std::sqrt(rv.variance)) <= 4 * eps * rv.error))
                {
                    rep.fail("C02", "error", key, fmt("iteration %llu: error=%.21Lg sqrt(variance)=%.21Lg",
                        (unsigned long long) k, rv.error, std::sqrt(rv.variance)));
                }
            }
        }

        if (!out.ranks.empty() && !out.ranks[0].log_calls) continue;

        if (ic.recs.size() != N)
        {
            rep.fail("C02", "evaluations", key, fmt("iteration %llu: integrand entered %zu times, asked for %llu",
                (unsigned long long) k, ic.recs.size(), (unsigned long long) N));
            continue;
        }

        u64 nz = 0, fin = 0;
        ld sum = 0, sumabs = 0, sumsq = 0;
        bool weights_ok = true;
        bool dom = true;   // all values inside the exponent range the tolerances are meant for
        bool dom_high = true;   // nothing near overflow (values in the subnormal range carry an absolute error instead)
        std::vector<ld> adj(rv.adj.size(), 0.0L), adjabs(rv.adj.size(), 0.0L);

        for (auto const& pr : ic.recs)
        {
            Ctx const& c = *pr.first;
            CallRec const& r = *pr.second;
            if (r.f == 0) continue;
            ++nz;
            ld w = 0;
            if (!call_weight(c, r, rv, w))
            {
                weights_ok = false;
                continue;
            }
            ld const val = round_to(p.nt, r.f * w);
            if (!std::isfinite(val)) continue;
            if (!in_domain(p.nt, val) || !in_domain(p.nt, val * val) || !in_domain(p.nt, val * val * w)) dom = false;
            if (std::fabs(val) > huge_of(p.nt) || val * val > huge_of(p.nt) || std::fabs(val * val * w) > huge_of(p.nt)) dom_high = false;
            ++fin;
            sum += val;
            sumabs += std::fabs(val);
            ld const sq = round_to(p.nt, val * val);
            sumsq += sq;

            if (val == 0) continue;

            if (p.integ == VEGAS && rv.pbins != 0)
            {
                for (u64 j = 0; j != rv.pdims; ++j)
                {
                    u64 const b = c.bins[r.off_bin + j];
                    if (b < rv.pbins)
                    {
                        adj[j * rv.pbins + b] += sq;
                        adjabs[j * rv.pbins + b] += sq;
                    }
                }
            }
            else if (p.integ == MULTI && r.dens_calls != 0)
            {
                ld const sqw = round_to(p.nt, sq * w);
                for (std::size_t j = 0; j != adj.size(); ++j)
                {
                    // the entry of a disabled channel is never written by a map that fills in the enabled
                    // channels only: whatever an earlier point or iteration left there is not a density
                    bool const unwritten = c.cmap_sparse && j < rv.weights.size() && rv.weights[j] == 0;
                    ld const t = unwritten ? 0.0L : c.arena[r.off_d + j] * sqw;
                    adj[j] += t;
                    adjabs[j] += std::fabs(t);
                }
            }
        }

        if (rv.nz != nz)
        {
            rep.fail("C02", "non-zero-calls", key, fmt("iteration %llu: non_zero_calls=%llu, log has %llu",
                (unsigned long long) k, (unsigned long long) rv.nz, (unsigned long long) nz));
        }

        if (!weights_ok) continue;

        if (rv.fin != fin)
        {
            rep.fail("C02", "finite-calls", key, fmt("iteration %llu: finite_calls=%llu, log has %llu",
                (unsigned long long) k, (unsigned long long) rv.fin, (unsigned long long) fin));
        }

        if (!dom)
        {
            rep.probes["values-outside-exponent-range"]++;
            // towards zero every operation of the numeric type is still exact to half of the smallest
            // subnormal: the sums of squared, weighted values per bin / channel are compared with that
            // absolute error per term (what underflows must not simply be left out)
            if (dom_high && ic.recs.size() <= 100000)
            {
                ld const slack = (4.0L * N + 16.0L + 2.0L * out.ranks.size()) * eps;
                ld const abs_err = 4.0L * (N + 4.0L) * denorm_of(p.nt);
                for (std::size_t j = 0; j != adj.size(); ++j)
                {
                    if (!(std::fabs(rv.adj[j] - adj[j]) <= (slack + 16 * eps) * adjabs[j] + abs_err))
                    {
                        rep.fail("C02", "adjustment-data", key, fmt("iteration %llu entry %zu: %.21Lg reference %.21Lg (values in the subnormal range)",
                            (unsigned long long) k, j, rv.adj[j], adj[j]));
                        break;
                    }
                }
            }
            continue;
        }

        ld const slack = (4.0L * N + 16.0L + 2.0L * out.ranks.size()) * eps;

        if (!(std::fabs(rv.sum - sum) <= slack * sumabs))
        {
            rep.fail("C02", "sum", key, fmt("iteration %llu: sum=%.21Lg reference=%.21Lg sum|v|=%.6Lg",
                (unsigned long long) k, rv.sum, sum, sumabs));
        }

        if (!(std::fabs(rv.sumsq - sumsq) <= slack * sumsq))
        {
            rep.fail("C02", "sum-of-squares", key, fmt("iteration %llu: sumsq=%.21Lg reference=%.21Lg",
                (unsigned long long) k, rv.sumsq, sumsq));
        }

        for (std::size_t j = 0; j != adj.size(); ++j)
        {
            if (!(std::fabs(rv.adj[j] - adj[j]) <= (slack + 16 * eps) * adjabs[j]))
            {
                rep.fail("C02", "adjustment-data", key, fmt("iteration %llu entry %zu: %.21Lg reference %.21Lg",
                    (unsigned long long) k, j, rv.adj[j], adj[j]));
                break;
            }
        }

    }
}

// -------------------------------------------------------------------------------------------------
// C07

static bool valid_grid(std::vector<ld> const& x, u64 bins, u64 dims, std::string& why)
{
    if (bins == 0 || x.size() != dims * (bins + 1))
    {
        why = "grid has the wrong size";
        return false;
    }
    for (u64 d = 0; d != dims; ++d)
    {
        ld const* g = &x[d * (bins + 1)];
        if (g[0] != 0)
        {
            why = fmt("dimension %llu: first boundary %.21Lg", (unsigned long long) d, g[0]);
            return false;
        }
        if (g[bins] != 1)
        {
            why = fmt("dimension %llu: last boundary %.21Lg", (unsigned long long) d, g[bins]);
            return false;
        }
        for (u64 b = 0; b != bins + 1; ++b)
        {
            if (!std::isfinite(g[b]))
            {
                why = fmt("dimension %llu boundary %llu not finite", (unsigned long long) d, (unsigned long long) b);
                return false;
            }
            if (b != 0 && g[b] < g[b - 1])
            {
                why = fmt("dimension %llu boundary %llu decreases: %.21Lg < %.21Lg", (unsigned long long) d,
                    (unsigned long long) b, g[b], g[b - 1]);
                return false;
            }
        }
    }
    return true;
}

void oracle_c07_invariants(Plan const& p, RunOut const& out, ChkptView const& v, Report& rep)
{
    if (p.integ != VEGAS) return;

    ld const eps = eps_of(p.nt);
    std::string const key = fmt("vegas %s", tname(p));
    std::string why;

    for (u64 k = out.base; k < v.results.size(); ++k)
    {
        ResultView const& rv = v.results[k];

        if (!valid_grid(rv.pdf, rv.pbins, rv.pdims, why))
        {
            rep.fail("C07", "grid-invalid", key, fmt("grid used by iteration %llu: %s", (unsigned long long) k,
                why.c_str()));
            return;
        }

        if (!rv.refined.empty() && !valid_grid(rv.refined, rv.pbins, rv.pdims, why))
        {
            if (std::getenv("HEPSIM_DUMP") != nullptr)
            {
                std::fprintf(stderr, "DUMP alpha=%.9Lg bins=%llu dims=%llu\n", v.alpha, (unsigned long long) rv.pbins,
                    (unsigned long long) rv.pdims);
                for (u64 j = 0; j != rv.pdims; ++j)
                {
                    std::fprintf(stderr, "dim %llu grid:", (unsigned long long) j);
                    for (u64 b = 0; b <= rv.pbins; ++b) std::fprintf(stderr, " %.9Lg", rv.pdf[j * (rv.pbins + 1) + b]);
                    std::fprintf(stderr, "\n data:");
                    for (u64 b = 0; b < rv.pbins; ++b) std::fprintf(stderr, " %.9Lg", rv.adj[j * rv.pbins + b]);
                    std::fprintf(stderr, "\n refined:");
                    for (u64 b = 0; b <= rv.pbins; ++b) std::fprintf(stderr, " %.9Lg", rv.refined[j * (rv.pbins + 1) + b]);
                    std::fprintf(stderr, "\n");
                }
            }
            rep.fail("C07", "refined-grid-invalid", key, fmt("refinement of iteration %llu: %s",
                (unsigned long long) k, why.c_str()));
            return;
        }

        // an iteration without information leaves the grid as it was
        bool all_zero = !rv.adj.empty();
        for (ld a : rv.adj) all_zero = all_zero && (a == 0);
        if (all_zero && !rv.refined.empty())
        {
            rep.probes["zero-information-iteration"]++;
            for (std::size_t i = 0; i != rv.pdf.size(); ++i)
            {
                if (!same_bits(rv.pdf[i], rv.refined[i]))
                {
                    rep.fail("C07", "zero-data-changes-grid", key, fmt(
                        "iteration %llu sampled only zeros, boundary %zu moved from %.21Lg to %.21Lg",
                        (unsigned long long) k, i, rv.pdf[i], rv.refined[i]));
                    break;
                }
            }
        }

        if (out.killed || out.hang || out.threw || k >= out.results) continue;

        IterCalls ic;
        collect_iteration(out, k, ic);

        for (auto const& pr : ic.recs)
        {
            Ctx const& c = *pr.first;
            CallRec const& r = *pr.second;
            ld wref = 1;

            for (u64 j = 0; j != rv.pdims; ++j)
            {
                u64 const b = c.bins[r.off_bin + j];
                ld const x = c.arena[r.off_u + j];

                if (b >= rv.pbins)
                {
                    rep.fail("C07", "bin-out-of-range", key, fmt("iteration %llu call %llu dimension %llu: bin %llu",
                        (unsigned long long) k, (unsigned long long) r.idx, (unsigned long long) j,
                        (unsigned long long) b));
                    return;
                }

                ld const left = rv.pdf[j * (rv.pbins + 1) + b];
                ld const right = rv.pdf[j * (rv.pbins + 1) + b + 1];

                if (!(x >= left && x <= right))
                {
                    rep.fail("C07", "point-outside-bin", key, fmt(
                        "iteration %llu call %llu dimension %llu: x=%.21Lg not in bin %llu [%.21Lg, %.21Lg]",
                        (unsigned long long) k, (unsigned long long) r.idx, (unsigned long long) j, x,
                        (unsigned long long) b, left, right));
                    return;
                }

                wref *= (right - left) * rv.pbins;
            }

            if (!in_domain(p.nt, wref))
            {
                rep.probes["weight-outside-exponent-range"]++;
                continue;
            }

            if (r.w_known && !(std::fabs(r.w - wref) <= 4 * (rv.pdims + 1) * eps * std::fabs(wref)))
            {
                rep.fail("C07", "weight", key, fmt("iteration %llu call %llu: weight %.21Lg, bins*width product %.21Lg",
                    (unsigned long long) k, (unsigned long long) r.idx, r.w, wref));
                return;
            }
        }
    }

    if (v.has_next && !valid_grid(v.next, v.next_bins, v.next_dims, why))
    {
        rep.fail("C07", "next-grid-invalid", key, "chkpt.pdf(): " + why);
    }
}

// equal share of the smoothed, damped importance: reference model in long double
void oracle_c07_share(Plan const& p, ChkptView const& v, Report& rep, bool used_grids)
{
    if (p.integ != VEGAS) return;

    ld const epsT = eps_of(p.nt);
    std::string const key = fmt("vegas %s", tname(p));

    for (u64 k = 0; k != v.results.size(); ++k)
    {
        ResultView const& rv = v.results[k];
        u64 const B = rv.pbins;
        if (rv.refined.empty() || B < 2) continue;
        ld const alpha = v.alpha;

        for (u64 d = 0; d != rv.pdims; ++d)
        {
            ld const* data = &rv.adj[d * B];
            ld const* oldg = &rv.pdf[d * (B + 1)];
            // the refinement as the library's function returns it, or (used_grids) the grid the next
            // iteration was really drawn with / the checkpoint hands out for it
            ld const* newg = &rv.refined[d * (B + 1)];
            if (used_grids)
            {
                if (k + 1 < v.results.size() && v.results[k + 1].pdf.size() == rv.pdf.size()) newg = &v.results[k + 1].pdf[d * (B + 1)];
                else if (k + 1 == v.results.size() && v.has_next && v.next.size() == rv.pdf.size()) newg = &v.next[d * (B + 1)];
                else continue;
            }

            std::vector<ld> t(B);
            ld norm = 0;
            bool finite = true;
            for (u64 b = 0; b != B; ++b)
            {
                if (!std::isfinite(data[b]) || data[b] < 0) finite = false;
            }
            if (!finite) continue;

            t[0] = 0.5L * (data[0] + data[1]);
            for (u64 b = 1; b + 1 < B; ++b) t[b] = (data[b - 1] + data[b] + data[b + 1]) / 3.0L;
            t[B - 1] = 0.5L * (data[B - 2] + data[B - 1]);
            for (u64 b = 0; b != B; ++b) norm += t[b];
            if (norm == 0) continue;

            // bins whose relative importance underflows in T are outside what the code can resolve
            bool skip = false;
            ld coarse = 0;   // relative resolution of the data if it is subnormal in the numeric type
            std::vector<ld> imp(B, 0.0L);
            ld total = 0;
            for (u64 b = 0; b != B; ++b)
            {
                if (t[b] == 0) continue;
                ld const r = t[b] / norm;
                if (round_to(p.nt, r) == 0 || r >= 1 || !in_domain(p.nt, r) || norm > huge_of(p.nt))
                {
                    skip = true;
                    break;
                }
                if (t[b] < tiny_of(p.nt))
                {
                    // smoothed data in (or close to) the subnormal range: the numeric type resolves it
                    // with `bits` bits only; below 10 bits nothing can be said
                    ld const denorm = (p.nt == NT_F) ? std::ldexp(1.0L, -149) : (p.nt == NT_D) ? std::ldexp(1.0L, -1074)
                                                                                                 : std::ldexp(1.0L, -16445);
                    int const bits = static_cast<int>(std::floor(std::log2(t[b] / denorm)));
                    if (bits < 10)
                    {
                        skip = true;
                        break;
                    }
                    coarse = std::max(coarse, std::ldexp(1.0L, -bits));
                }
                imp[b] = std::pow((r - 1.0L) / std::log(r), alpha);
                total += imp[b];
            }
            if (skip || !(total > 0) || !std::isfinite(total))
            {
                rep.probes["share-skipped"]++;
                continue;
            }

            // cumulative importance C(x), piecewise linear inside the old bins
            std::vector<ld> cum(B + 1, 0.0L);
            for (u64 b = 0; b != B; ++b) cum[b + 1] = cum[b] + imp[b];

            auto C = [&](ld x) {
                if (x <= 0) return 0.0L;
                if (x >= 1) return cum[B];
                // last old bin whose left edge is <= x
                u64 lo = 0, hi = B;
                while (hi - lo > 1)
                {
                    u64 const mid = (lo + hi) / 2;
                    if (oldg[mid] <= x) lo = mid;
                    else hi = mid;
                }
                ld const width = oldg[lo + 1] - oldg[lo];
                if (!(width > 0)) return cum[lo + 1];
                ld frac = (x - oldg[lo]) / width;
                if (frac > 1) frac = 1;
                return cum[lo] + frac * imp[lo];
            };

            ld const slack = 64.0L * B * std::max(epsT, 16 * (1 + alpha) * coarse) * total;
            if (coarse > 0) rep.probes["share-checked-subnormal-data"]++;

            for (u64 b = 1; b != B; ++b)
            {
                ld const x = newg[b];
                // a boundary is interpolated as `right edge - delta / importance`: its absolute error is
                // a few ulp of the right edge of the old bin (up to 1), not of its own magnitude
                ld const step = 8 * epsT;
                ld const lo = C(x - step) - slack;
                ld const hi = C(x + step) + slack;
                ld const share = total * b / B;
                if (!(lo <= share && share <= hi) && std::getenv("HEPSIM_DEBUG"))
                {
                    for (u64 i = 0; i <= B; ++i) std::fprintf(stderr, "old[%llu]=%.21Lg new=%.21Lg data=%.21Lg t=%.21Lg imp=%.21Lg cum=%.21Lg\n", (unsigned long long) i, oldg[i], newg[i], i < B ? data[i] : 0.0L, i < B ? t[i] : 0.0L, i < B ? imp[i] : 0.0L, cum[i]);
                }
                if (!(lo <= share && share <= hi))
                {
                    rep.fail("C07", "unequal-share", key, fmt(
                        "refinement of iteration %llu dimension %llu: boundary %llu at %.21Lg holds cumulative "
                        "importance in [%.21Lg, %.21Lg] of %.21Lg, equal share wants %.21Lg (slack %.3Lg)",
                        (unsigned long long) k, (unsigned long long) d, (unsigned long long) b, x, lo, hi, total,
                        share, slack));
                    return;
                }
            }
            rep.probes["share-checked"]++;
        }
    }
}

// -------------------------------------------------------------------------------------------------
// C08

void oracle_c08(Plan const& p, ChkptView const& v, Report& rep, u64 from)
{
    if (p.integ != MULTI) return;

    ld const eps = eps_of(p.nt);
    std::string const key = fmt("multi_channel %s", tname(p));

    auto check_vector = [&](std::vector<ld> const& w, char const* what, u64 k) {
        ld sum = 0;
        for (std::size_t i = 0; i != w.size(); ++i)
        {
            if (!std::isfinite(w[i]) || w[i] < 0)
            {
                rep.fail("C08", "weights-not-probabilities", key, fmt("%s %llu: weight %zu is %.21Lg", what,
                    (unsigned long long) k, i, w[i]));
                return false;
            }
            sum += w[i];
        }
        if (!w.empty() && !(std::fabs(sum - 1) <= 4 * (w.size() + 1) * eps))
        {
            rep.fail("C08", "weights-not-normalised", key, fmt("%s %llu: weights sum to %.21Lg", what,
                (unsigned long long) k, sum));
            return false;
        }
        return true;
    };

    if (std::getenv("HEPSIM_DUMP") != nullptr)
    {
        for (u64 k = 0; k != v.results.size(); ++k)
        {
            std::fprintf(stderr, "DUMP iteration %llu beta=%.9Lg minw=%.9Lg\n weights:", (unsigned long long) k, v.beta, v.minw);
            for (ld w : v.results[k].weights) std::fprintf(stderr, " %.12Lg", w);
            std::fprintf(stderr, "\n adj:");
            for (ld w : v.results[k].adj) std::fprintf(stderr, " %.12Lg", w);
            std::fprintf(stderr, "\n refined:");
            for (ld w : v.results[k].refined) std::fprintf(stderr, " %.12Lg", w);
            std::fprintf(stderr, "\n");
        }
    }

    std::vector<bool> disabled;

    // channels the user's own weights disable stay disabled from the first iteration on, whatever
    // happened to the checkpoint in between (text, rollback)
    if (p.wts == 1 && !(p.scn == "durable" && p.variant == 1))
    {
        std::vector<ld> const uw = make_user_weights(p);
        if (!v.results.empty() && uw.size() == v.results[0].weights.size())
        {
            for (ld w : uw) disabled.push_back(w == 0);
        }
    }

    for (u64 k = 0; k != v.results.size(); ++k)
    {
        ResultView const& rv = v.results[k];
        if (!check_vector(rv.weights, "weights of iteration", k)) return;

        if (disabled.empty()) disabled.assign(rv.weights.size(), false);
        for (std::size_t i = 0; i != rv.weights.size() && i != disabled.size(); ++i)
        {
            if (disabled[i] && rv.weights[i] != 0)
            {
                rep.fail("C08", "channel-re-enabled", key, fmt("channel %zu was disabled and has weight %.21Lg in iteration %llu",
                    i, rv.weights[i], (unsigned long long) k));
                return;
            }
            if (rv.weights[i] == 0) disabled[i] = true;
        }

        if (rv.refined.size() != rv.weights.size()) continue;

        // the property is about finite data; sums of squares that overflowed are outside it
        bool finite_data = true;
        for (ld a : rv.adj) finite_data = finite_data && std::isfinite(a) && a >= 0;
        if (!finite_data)
        {
            rep.probes["refinement-skipped-non-finite-data"]++;
            break;   // whatever follows was sampled with weights nothing can be said about
        }

        // reference model of one refinement
        std::size_t const n = rv.weights.size();
        bool all_zero = true;
        for (ld a : rv.adj) all_zero = all_zero && (a == 0);

        if (all_zero)
        {
            rep.probes["zero-information-iteration"]++;
            for (std::size_t i = 0; i != n; ++i)
            {
                if (!same_bits(rv.refined[i], rv.weights[i]))
                {
                    rep.fail("C08", "zero-data-changes-weights", key, fmt(
                        "iteration %llu sampled only zeros, weight %zu changes from %.21Lg to %.21Lg",
                        (unsigned long long) k, i, rv.weights[i], rv.refined[i]));
                    return;
                }
            }
            continue;
        }

        if (!check_vector(rv.refined, "refinement of iteration", k)) return;

        std::vector<ld> ref(n, 0.0L);
        ld s = 0;
        for (std::size_t i = 0; i != n; ++i)
        {
            ref[i] = rv.weights[i] * std::pow(rv.adj[i], v.beta);
            // a product that underflows to zero in the numeric type disables the channel there; the
            // reference follows (outside the exponent range the property cannot be met)
            if (round_to(p.nt, ref[i]) == 0) ref[i] = 0;
            s += ref[i];
        }
        if (!(s > 0) || !std::isfinite(s)) continue;
        ld s2 = 0;
        bool floor_hit = false;
        for (std::size_t i = 0; i != n; ++i)
        {
            if (ref[i] == 0) continue;
            ref[i] /= s;
            if (ref[i] < v.minw)
            {
                ref[i] = v.minw;
                floor_hit = true;
            }
            s2 += ref[i];
        }
        if (floor_hit) rep.probes["floor-hit"]++;
        for (std::size_t i = 0; i != n; ++i) ref[i] /= s2;

        ld const tol = (16 + 2 * n) * eps;
        ld const floorv = v.minw / (1 + n * v.minw);

        for (std::size_t i = 0; i != n; ++i)
        {
            if (rv.weights[i] == 0)
            {
                if (rv.refined[i] != 0)
                {
                    rep.fail("C08", "channel-re-enabled", key, fmt("refinement of iteration %llu enables channel %zu",
                        (unsigned long long) k, i));
                    return;
                }
                continue;
            }
            if (!(rv.adj[i] > 0)) continue;   // not constrained by the property
            // weights whose unnormalised value underflows in T are outside what the code can resolve
            if (round_to(p.nt, rv.weights[i] * std::pow(rv.adj[i], v.beta)) == 0) continue;
            {
                ld const prod = rv.weights[i] * std::pow(rv.adj[i], v.beta);
                if (!in_domain(p.nt, ref[i]) || prod < tiny_of(p.nt) || !std::isfinite(round_to(p.nt, prod))) continue;
            }
            if (!(std::fabs(rv.refined[i] - ref[i]) <= tol * ref[i]))
            {
                rep.fail("C08", "refinement-formula", key, fmt(
                    "refinement of iteration %llu channel %zu: %.21Lg, reference %.21Lg", (unsigned long long) k, i,
                    rv.refined[i], ref[i]));
                return;
            }
            if (!(rv.refined[i] >= floorv * (1 - tol)))
            {
                rep.fail("C08", "below-floor", key, fmt("refinement of iteration %llu channel %zu: %.21Lg below %.21Lg",
                    (unsigned long long) k, i, rv.refined[i], floorv));
                return;
            }
            // the weights the next iteration really used (the MPI variants refine a local copy)
            // (iterations before `from` ran in an earlier segment, possibly under other parameters)
            if (k + 1 >= from && k + 1 < v.results.size() && v.results[k + 1].weights.size() == n &&
                !(std::fabs(v.results[k + 1].weights[i] - ref[i]) <= tol * ref[i]))
            {
                rep.fail("C08", "weights-used-not-refinement", key, fmt(
                    "iteration %llu used weight %.21Lg for channel %zu, old weight x datum^beta of iteration %llu gives %.21Lg",
                    (unsigned long long) (k + 1), v.results[k + 1].weights[i], i, (unsigned long long) k, ref[i]));
                return;
            }
        }
    }

    if (v.has_next && !v.results.empty())
    {
        bool all_zero = true, finite = true;
        for (auto const& r : v.results)
        {
            for (ld a : r.adj) finite = finite && std::isfinite(a);
        }
        for (ld a : v.results.back().adj) all_zero = all_zero && (a == 0);
        if (!all_zero && finite) check_vector(v.next, "chkpt.channel_weights() after iteration", v.results.size() - 1);
    }
}

// -------------------------------------------------------------------------------------------------
// C09 (invariant part)

void oracle_c09_invariant(Plan const& p, RunOut const& out, ChkptView const& v, Report& rep)
{
    if (p.integ != MULTI || out.killed || out.hang || out.threw) return;

    std::string const key = fmt("multi_channel %s", tname(p));

    for (u64 k = out.base; k < out.results && k < v.results.size(); ++k)
    {
        if (state_after_overflow(v, k)) break;
        ResultView const& rv = v.results[k];
        IterCalls ic;
        collect_iteration(out, k, ic);

        for (auto const& pr : ic.recs)
        {
            CallRec const& r = *pr.second;
            if (r.channel >= rv.weights.size())
            {
                rep.fail("C09", "invalid-channel", key, fmt("iteration %llu call %llu: channel %u of %zu",
                    (unsigned long long) k, (unsigned long long) r.idx, r.channel, rv.weights.size()));
                return;
            }
            if (rv.weights[r.channel] == 0)
            {
                bool leading = true;
                for (u64 j = 0; j != r.channel; ++j) leading = leading && rv.weights[j] == 0;
                rep.fail("C09", "disabled-channel-selected", leading && r.channel == 0 ?
                    "canonical 0 with leading zero weight" : key,
                    fmt("iteration %llu call %llu: channel %u has weight zero", (unsigned long long) k,
                        (unsigned long long) r.idx, r.channel));
                return;
            }
        }
    }
}

// -------------------------------------------------------------------------------------------------
// C10

void oracle_c10(Plan const& p, std::vector<u64> const& seg_calls, RunOut const& out, IWorld const& world,
    Report& rep)
{
    if (out.killed || out.hang || out.threw) return;

    UsageInfo const u = world.usage();
    u64 const numbers = p.dims + (p.integ == MULTI ? 1 : 0);
    u64 const per_call = numbers * u.predicted;
    std::string const key = fmt("%s %s %s", integ_name(p.integ), tname(p), engine_name(p.eng));

    for (auto const& c : out.ranks)
    {
        if (!c.log_calls)
        {
            // volume runs keep no call records: the total must still be calls x numbers x cost
            u64 total = 0;
            for (auto const& st : c.stats) total += st.second.calls;
            if (c.draws != total * per_call)
            {
                rep.fail("C10", "draws-per-call", key, fmt("rank %d drew %llu raw outputs for %llu calls, predictor says %llu each",
                    c.rank, (unsigned long long) c.draws, (unsigned long long) total, (unsigned long long) per_call));
                return;
            }
            continue;
        }

        u64 prev = 0;
        for (auto const& r : c.calls)
        {
            u64 const used = r.draws - prev;
            prev = r.draws;
            if (used != per_call)
            {
                rep.fail("C10", "draws-per-call", key, fmt(
                    "rank %d iteration %u call %llu consumed %llu raw outputs, predictor says %llu x %llu",
                    c.rank, r.iter, (unsigned long long) r.idx, (unsigned long long) used,
                    (unsigned long long) numbers, (unsigned long long) u.predicted));
                return;
            }
        }
        // nothing may be drawn after the last call either
        if (c.draws != prev)
        {
            rep.fail("C10", "draws-after-last-call", key, fmt("rank %d drew %llu raw outputs after its last call",
                c.rank, (unsigned long long) (c.draws - prev)));
            return;
        }
    }

    for (u64 k = out.base; k < out.results; ++k)
    {
        u64 const N = seg_calls[k - out.base];
        if (N * per_call > 50000000ULL) continue;
        if (!world.generator_advance_matches(k, N * per_call))
        {
            rep.fail("C10", "stored-generator", key, fmt(
                "generator stored after iteration %llu is not the one before it advanced by %llu x %llu",
                (unsigned long long) k, (unsigned long long) N, (unsigned long long) per_call));
            return;
        }
    }
}

// -------------------------------------------------------------------------------------------------
// C11

namespace
{

struct Placed
{
    bool outside = false;   // certainly in no bin
    bool ambiguous = false;
    long long bin = -1;     // first candidate (-1 = outside)
    long long alt = -1;     // second candidate if ambiguous
};

// position of one coordinate on one axis: q = (x - min) / size
void axis(int nt, ld x, ld mn, ld size, u64 nb, ld eps, long long& k, long long& alt, bool& amb)
{
    amb = false;
    alt = -2;
    if (x != x || std::isinf(x))
    {
        k = -1;
        return;
    }
    ld const shifted = x - mn;
    ld const q = shifted / size;
    if (!(q > -1e18L && q < 1e18L))
    {
        k = -1;
        return;
    }
    // a tiny negative offset may underflow to -0 in the division: it is still left of the range
    ld const fl = (shifted < 0) ? std::min<ld>(-1.0L, std::floor(q)) : std::floor(q);
    ld const near = std::round(q);
    k = (fl < 0 || fl >= static_cast<ld>(nb)) ? -1 : static_cast<long long>(fl);
    ld const dist = std::fabs(q - near);
    // exactly on an edge (remainder computed without rounding): unambiguous, the bin right of it;
    // note that q itself may round to an integer although the coordinate is next to the edge
    // (and only if the offset x - min is exact in the numeric type; otherwise the subtraction
    // alone is one rounding error)
    bool const on_edge = std::fma(-near, size, shifted) == 0 && round_to(nt, shifted) == shifted;
    if (!on_edge && dist <= 4 * eps * std::max<ld>(1, std::fabs(q)))
    {
        // within one rounding error of the edge `near`: either side is acceptable
        long long const lo = static_cast<long long>(near) - 1, hi = static_cast<long long>(near);
        auto clampk = [&](long long b) { return (b < 0 || b >= static_cast<long long>(nb)) ? -1LL : b; };
        long long const a = clampk(lo), b = clampk(hi);
        if (a != b)
        {
            amb = true;
            k = a;
            alt = b;
        }
    }
}

}

void oracle_c11(Plan const& p, RunOut const& out, ChkptView const& v, Report& rep)
{
    if (p.acc == 0 || p.dists.empty() || out.killed || out.hang || out.threw) return;

    ld const eps = eps_of(p.nt);
    std::string const key = fmt("%s %s", integ_name(p.integ), tname(p));

    for (u64 k = out.base; k < out.results && k < v.results.size(); ++k)
    {
        ResultView const& rv = v.results[k];
        IterCalls ic;
        collect_iteration(out, k, ic);
        u64 const N = rv.calls;

        if (rv.dists.size() != p.dists.size())
        {
            rep.fail("C11", "distribution-count", key, fmt("iteration %llu has %zu distributions, asked for %zu",
                (unsigned long long) k, rv.dists.size(), p.dists.size()));
            return;
        }

        for (std::size_t d = 0; d != rv.dists.size(); ++d)
        {
            DistView const& dv = rv.dists[d];
            u64 const nb = dv.bx * dv.by;
            if (dv.bins.size() != nb)
            {
                rep.fail("C11", "bin-count", key, fmt("distribution %zu has %zu bins, parameters say %llu", d,
                    dv.bins.size(), (unsigned long long) nb));
                return;
            }

            // mid-points: x fastest
            for (u64 i = 0; i != nb && i < dv.midx.size(); ++i)
            {
                ld const mx = dv.xmin + (static_cast<ld>(i % dv.bx) + 0.5L) * dv.sx;
                ld const my = dv.ymin + (static_cast<ld>(i / dv.bx) + 0.5L) * dv.sy;
                ld const tx = 4 * (dv.bx + 2) * eps * (std::fabs(dv.xmin) + dv.bx * std::fabs(dv.sx));
                ld const ty = 4 * (dv.by + 2) * eps * (std::fabs(dv.ymin) + dv.by * std::fabs(dv.sy));
                if (!(std::fabs(dv.midx[i] - mx) <= tx) || !(std::fabs(dv.midy[i] - my) <= ty))
                {
                    rep.fail("C11", "mid-points", key, fmt("distribution %zu bin %llu: mid point (%.21Lg, %.21Lg), expected (%.21Lg, %.21Lg)",
                        d, (unsigned long long) i, dv.midx[i], dv.midy[i], mx, my));
                    return;
                }
            }

            for (u64 i = 0; i != nb; ++i)
            {
                if (dv.bins[i].calls != N)
                {
                    rep.fail("C11", "bin-calls", key, fmt("distribution %zu bin %llu reports calls=%llu, iteration has %llu",
                        d, (unsigned long long) i, (unsigned long long) dv.bins[i].calls, (unsigned long long) N));
                    return;
                }
            }

            std::vector<ld> sum(nb, 0.0L), sumabs(nb, 0.0L), sumsq(nb, 0.0L);
            struct Amb { long long a, b; ld v; };
            std::vector<Amb> ambs;
            bool weights_ok = true;
            u64 nadds = 0;

            for (auto const& pr : ic.recs)
            {
                Ctx const& c = *pr.first;
                CallRec const& r = *pr.second;
                for (std::uint32_t ai = 0; ai != r.n_add; ++ai)
                {
                    AddRec const& a = c.adds[r.off_add + ai];
                    if (a.dist != d) continue;
                    ld w = 0;
                    if (!call_weight(c, r, rv, w))
                    {
                        weights_ok = false;
                        continue;
                    }
                    ld const val = round_to(p.nt, a.value * w);
                    if (!std::isfinite(val)) continue;
                    if (!in_domain(p.nt, val) || !in_domain(p.nt, val * val / (dv.sx * dv.sy) / (dv.sx * dv.sy)))
                    {
                        // outside the exponent range the tolerances are meant for
                        weights_ok = false;
                        rep.probes["bins-skipped-exponent-range"]++;
                        continue;
                    }
                    ++nadds;
                    if (std::getenv("HEPSIM_DEBUG")) std::fprintf(stderr, "add dist %zu call %llu x=%.21Lg y=%.21Lg val=%.21Lg\n", d, (unsigned long long) r.idx, a.x, a.y, val);

                    long long kx, ax, ky = 0, ay = -2;
                    bool ambx = false, amby = false;
                    axis(p.nt, a.x, dv.xmin, dv.sx, dv.bx, eps, kx, ax, ambx);
                    if (a.two_d) axis(p.nt, a.y, dv.ymin, dv.sy, dv.by, eps, ky, ay, amby);

                    if (ambx && amby)
                    {
                        // both coordinates on an edge: leave this iteration alone
                        weights_ok = false;
                        rep.probes["bins-skipped-double-edge"]++;
                        continue;
                    }

                    auto flat = [&](long long x, long long y) -> long long {
                        return (x < 0 || y < 0) ? -1 : y * static_cast<long long>(dv.bx) + x;
                    };

                    if (ambx || amby)
                    {
                        Amb m;
                        m.a = flat(kx, ky);
                        m.b = ambx ? flat(ax, ky) : flat(kx, ay);
                        m.v = val;
                        if (m.a == m.b)
                        {
                            if (m.a >= 0)
                            {
                                sum[m.a] += val;
                                sumabs[m.a] += std::fabs(val);
                                sumsq[m.a] += val * val;
                            }
                        }
                        else
                        {
                            ambs.push_back(m);
                        }
                        rep.probes["coordinate-on-edge"]++;
                        continue;
                    }

                    long long const b = flat(kx, ky);
                    if (b < 0)
                    {
                        rep.probes["coordinate-outside"]++;
                        continue;
                    }
                    sum[b] += val;
                    sumabs[b] += std::fabs(val);
                    sumsq[b] += val * val;
                }
            }

            if (!weights_ok) continue;

            if (ambs.size() > 12)
            {
                rep.probes["bins-skipped-many-edges"]++;
                continue;
            }

            ld const area = dv.sx * dv.sy;
            ld const slack = (4.0L * (nadds + 4) + 32.0L) * eps;
            std::string first_bad;
            bool ok = false;

            for (u64 mask = 0; mask != (1ULL << ambs.size()) && !ok; ++mask)
            {
                std::vector<ld> s = sum, sa = sumabs, sq = sumsq;
                for (std::size_t i = 0; i != ambs.size(); ++i)
                {
                    long long const b = (mask >> i & 1) ? ambs[i].b : ambs[i].a;
                    if (b >= 0)
                    {
                        s[b] += ambs[i].v;
                        sa[b] += std::fabs(ambs[i].v);
                        sq[b] += ambs[i].v * ambs[i].v;
                    }
                }
                bool good = true;
                for (u64 i = 0; i != nb && good; ++i)
                {
                    ld const lib = dv.bins[i].sum * area;
                    ld const libsq = dv.bins[i].sumsq * area * area;
                    if (!(std::fabs(lib - s[i]) <= slack * sa[i]) || !(std::fabs(libsq - sq[i]) <= slack * sq[i]))
                    {
                        good = false;
                        if (mask == 0)
                        {
                            first_bad = fmt("distribution %zu bin %llu: sum*area=%.21Lg reference %.21Lg, "
                                "sumsq*area^2=%.21Lg reference %.21Lg (%zu adds on edges)", d, (unsigned long long) i,
                                lib, s[i], libsq, sq[i], ambs.size());
                        }
                    }
                }
                ok = good;
            }

            if (!ok && std::getenv("HEPSIM_DEBUG"))
            {
                for (u64 i = 0; i != nb; ++i) std::fprintf(stderr, "bin %llu lib %.21Lg unamb %.21Lg\n", (unsigned long long) i, dv.bins[i].sum * area, sum[i]);
                for (auto const& m : ambs) std::fprintf(stderr, "amb %lld|%lld val %.21Lg\n", m.a, m.b, m.v);
            }
            if (!ok)
            {
                rep.fail("C11", "bin-content", key, fmt("iteration %llu ", (unsigned long long) k) + first_bad);
                return;
            }
            rep.probes["bins-checked"]++;
        }
    }
}

// -------------------------------------------------------------------------------------------------
// C12 (history order)

void oracle_c12_history(Plan const& p, RunCtl const& ctl, std::vector<u64> const& seg_calls,
    RunOut const& out, Report& rep)
{
    if (out.killed || out.hang || out.threw) return;

    std::string const key = fmt("%s%s", integ_name(p.integ), ctl.P ? " mpi" : "");
    u64 const P = out.ranks.size();

    for (auto const& c : out.ranks)
    {
        u64 prev_calls = 0;
        bool stopped = false;

        for (std::size_t i = 0; i != c.cbs.size(); ++i)
        {
            CbRec const& cb = c.cbs[i];

            if (stopped)
            {
                rep.fail("C12", "callback-after-stop", key, fmt("rank %d: callback invoked again after it returned false",
                    c.rank));
                return;
            }

            if (cb.nresults != out.base + i + 1)
            {
                rep.fail("C12", "callback-results", key, fmt(
                    "rank %d: invocation %zu sees %llu results, expected %llu", c.rank, i,
                    (unsigned long long) cb.nresults, (unsigned long long) (out.base + i + 1)));
                return;
            }

            if (i < seg_calls.size() && c.log_calls)
            {
                u64 const N = seg_calls[i];
                u64 share = N;
                if (ctl.P != 0) share = N / P + (static_cast<u64>(c.rank) < N % P ? 1 : 0);
                if (cb.calls_logged - prev_calls != share)
                {
                    rep.fail("C12", "calls-before-callback", key, fmt(
                        "rank %d: %llu integrand calls before invocation %zu, iteration has %llu", c.rank,
                        (unsigned long long) (cb.calls_logged - prev_calls), i, (unsigned long long) share));
                    return;
                }
            }

            prev_calls = cb.calls_logged;
            if (!cb.ret) stopped = true;
        }

        if (c.log_calls && c.calls.size() != prev_calls)
        {
            rep.fail("C12", "calls-after-last-callback", key, fmt(
                "rank %d: %llu integrand calls after the last callback invocation", c.rank,
                (unsigned long long) (c.calls.size() - prev_calls)));
            return;
        }

        u64 const performed = c.cbs.size();

        if (performed > seg_calls.size())
        {
            rep.fail("C12", "too-many-iterations", key, fmt("rank %d: %llu iterations, asked for %zu", c.rank,
                (unsigned long long) performed, seg_calls.size()));
            return;
        }

        if (!stopped && performed != seg_calls.size())
        {
            rep.fail("C12", "stopped-without-false", key, fmt(
                "rank %d: run ended after %llu of %zu iterations although the callback never returned false",
                c.rank, (unsigned long long) performed, seg_calls.size()));
            return;
        }

        if (out.results != out.base + performed)
        {
            rep.fail("C12", "returned-results", key, fmt("returned checkpoint has %llu results, callbacks saw %llu",
                (unsigned long long) out.results, (unsigned long long) (out.base + performed)));
            return;
        }

        if (c.log_text && !c.cbs.empty() && static_cast<std::size_t>(c.rank) < out.rank_texts.size() &&
            c.cbs.back().text != out.rank_texts[c.rank])
        {
            rep.fail("C12", "returned-checkpoint", key, fmt(
                "rank %d: returned checkpoint differs from the one handed to the last callback invocation", c.rank));
            return;
        }
    }
}

// -------------------------------------------------------------------------------------------------
// C17

void oracle_c17(Plan const& p, RunOut const& out, ChkptView const& v, Report& rep)
{
    std::string const key = fmt("%s %s", integ_name(p.integ), tname(p));

    if (p.integ == MULTI && state_after_overflow(v, v.results.size()))
    {
        rep.probes["skipped-after-overflowed-squares"]++;
        return;
    }

    for (auto const& c : out.ranks)
    {
        if (!c.proto.empty())
        {
            rep.fail("C17", c.proto[0], key, fmt("rank %d: %s (and %zu more)", c.rank, c.proto[0].c_str(),
                c.proto.size() - 1));
            return;
        }
    }

    if (out.killed || out.hang || out.threw) return;

    for (u64 k = out.base; k < out.results && k < v.results.size(); ++k)
    {
        ResultView const& rv = v.results[k];
        IterCalls ic;
        collect_iteration(out, k, ic);

        std::vector<u64> expected_enabled;
        for (std::size_t j = 0; j != rv.weights.size(); ++j)
        {
            if (rv.weights[j] != 0) expected_enabled.push_back(j);
        }

        if (p.integ == MULTI)
        {
            for (auto const& c : out.ranks)
            {
                if (k < c.enabled_by_iter.size() && !c.enabled_by_iter[k].empty() &&
                    c.enabled_by_iter[k] != expected_enabled)
                {
                    rep.fail("C17", "enabled-list", key, fmt(
                        "iteration %llu: map was given %zu enabled channels, weights have %zu non-zero entries",
                        (unsigned long long) k, c.enabled_by_iter[k].size(), expected_enabled.size()));
                    return;
                }
            }
        }

        // one integrand entry per sampled point (PLAIN / VEGAS: the record is made on entry)
        if (!out.ranks.empty() && out.ranks[0].log_calls && ic.recs.size() != rv.calls)
        {
            rep.fail("C17", "integrand-entries", key, fmt("iteration %llu: %zu integrand entries for %llu sampled points",
                (unsigned long long) k, ic.recs.size(), (unsigned long long) rv.calls));
            return;
        }

        for (auto const& pr : ic.recs)
        {
            Ctx const& c = *pr.first;
            CallRec const& r = *pr.second;

            if (r.entries != 1)
            {
                rep.fail("C17", "integrand-entries", key, fmt("iteration %llu call %llu: integrand entered %u times",
                    (unsigned long long) k, (unsigned long long) r.idx, r.entries));
                return;
            }

            for (u64 j = 0; j != p.dims; ++j)
            {
                ld const x = c.arena[r.off_u + j];
                bool const ok = (p.integ == VEGAS) ? (x >= 0 && x <= 1) : (x >= 0 && x < 1);
                if (!ok)
                {
                    rep.fail("C17", "coordinate-range", key, fmt("iteration %llu call %llu: number %llu is %.21Lg",
                        (unsigned long long) k, (unsigned long long) r.idx, (unsigned long long) j, x));
                    return;
                }
                if (x == 0) rep.probes["canonical-zero"]++;

                if (p.integ == VEGAS && rv.pbins != 0)
                {
                    // the bin index is below the bin count and the bin contains the point
                    u64 const b = c.bins[r.off_bin + j];
                    bool inside = b < rv.pbins;
                    if (inside)
                    {
                        ld const left = rv.pdf[j * (rv.pbins + 1) + b];
                        ld const right = rv.pdf[j * (rv.pbins + 1) + b + 1];
                        inside = (x >= left && x <= right);
                    }
                    if (!inside)
                    {
                        rep.fail("C17", "vegas-bin", key, fmt(
                            "iteration %llu call %llu dimension %llu: bin %llu of %llu does not contain x=%.21Lg",
                            (unsigned long long) k, (unsigned long long) r.idx, (unsigned long long) j,
                            (unsigned long long) b, (unsigned long long) rv.pbins, x));
                        return;
                    }
                }
            }

            if (p.integ == MULTI)
            {
                if (std::find(expected_enabled.begin(), expected_enabled.end(), r.channel) ==
                    expected_enabled.end())
                {
                    rep.fail("C17", "map-disabled-channel", key, fmt(
                        "iteration %llu call %llu: map asked for coordinates of channel %u, which is not enabled",
                        (unsigned long long) k, (unsigned long long) r.idx, r.channel));
                    return;
                }

                bool const need = (r.f != 0) || r.asked_weight;

                if (r.dens_before != 0)
                {
                    rep.fail("C17", "densities-before-integrand", key, fmt("iteration %llu call %llu",
                        (unsigned long long) k, (unsigned long long) r.idx));
                    return;
                }

                if (!need && r.dens_calls != 0)
                {
                    rep.fail("C17", "densities-not-needed", key, fmt(
                        "iteration %llu call %llu: value zero, weight not requested, densities computed %u times",
                        (unsigned long long) k, (unsigned long long) r.idx, r.dens_calls));
                    return;
                }

                if (r.f != 0 && r.dens_calls == 0)
                {
                    rep.fail("C17", "densities-missing", key, fmt(
                        "iteration %llu call %llu: non-zero value but densities never requested",
                        (unsigned long long) k, (unsigned long long) r.idx));
                    return;
                }

                if (!need) rep.probes["lazy-densities-skipped"]++;
            }
        }
    }
}

// -------------------------------------------------------------------------------------------------
// C19

static u64 raw_at(Ctx const& c, u64 stream, u64 pos)
{
    Ctx tmp;
    tmp.genmode = c.genmode;
    tmp.lat_n = c.lat_n;
    tmp.lat_dims = c.lat_dims;
    tmp.lat_active = c.lat_active;
    tmp.lat_percall = c.lat_percall;
    tmp.lat_base = c.lat_base;
    tmp.lat_points = c.lat_points;
    tmp.lat_selector = c.lat_selector;
    tmp.forced = c.forced;
    Ctx* const prev = current_ctx();
    current_ctx() = &tmp;
    u64 const r = script_raw(stream, pos);
    current_ctx() = prev;
    return r;
}

void oracle_c19(Plan const& p, RunCtl const& ctl, RunOut const& out, ChkptView const& v, bool first_segment,
    Report& rep)
{
    if (p.integ == PLAIN) return;
    (void) ctl;

    ld const eps = eps_of(p.nt);
    std::string const key = fmt("%s %s%s", integ_name(p.integ), tname(p), out.ranks.size() > 1 ? " mpi" : "");

    auto state = [&](ResultView const& rv) -> std::vector<ld> const& {
        return (p.integ == VEGAS) ? rv.pdf : rv.weights;
    };

    // the refinement runs under the checkpoint's alpha / beta / minimum weight: these are the user's,
    // in every incarnation of the run
    if (p.scn != "durable")
    {
        if (p.integ == VEGAS && !same_bits(v.alpha, round_to(p.nt, p.alpha)))
        {
            rep.fail("C19", "adaptation-parameter-changed", key, fmt("the checkpoint's alpha is %.21Lg, the run was started with %.21Lg",
                v.alpha, round_to(p.nt, p.alpha)));
            return;
        }
        if (p.integ == MULTI && (!same_bits(v.beta, round_to(p.nt, p.beta)) || !same_bits(v.minw, round_to(p.nt, p.minw))))
        {
            rep.fail("C19", "adaptation-parameter-changed", key, fmt(
                "the checkpoint's beta / minimum weight are %.21Lg / %.21Lg, the run was started with %.21Lg / %.21Lg",
                v.beta, v.minw, round_to(p.nt, p.beta), round_to(p.nt, p.minw)));
            return;
        }
    }

    // the chain of recorded states
    for (u64 k = std::max<u64>(out.base, 1); k < v.results.size(); ++k)
    {
        auto const& used = state(v.results[k]);
        auto const& want = v.results[k - 1].refined;
        if (want.empty()) continue;
        bool same = used.size() == want.size();
        std::size_t where = 0;
        for (std::size_t i = 0; same && i != used.size(); ++i)
        {
            if (!same_bits(used[i], want[i]))
            {
                same = false;
                where = i;
            }
        }
        if (!same)
        {
            bool nan = false;
            for (ld x : want) nan = nan || (x != x);
            if (nan) continue;   // a refinement that is itself broken belongs to C07 / C08
            rep.fail("C19", "state-chain", key, fmt(
                "iteration %llu sampled with a state that is not the refinement of result %llu (entry %zu: %.21Lg vs %.21Lg)",
                (unsigned long long) k, (unsigned long long) (k - 1), where,
                where < used.size() ? used[where] : 0.0L, where < want.size() ? want[where] : 0.0L));
            return;
        }
    }

    if (v.has_next && !v.results.empty() && !v.results.back().refined.empty())
    {
        auto const& want = v.results.back().refined;
        bool same = v.next.size() == want.size();
        for (std::size_t i = 0; same && i != want.size(); ++i) same = same_bits(v.next[i], want[i]);
        bool nan = false;
        for (ld x : want) nan = nan || (x != x);
        if (!same && !nan)
        {
            rep.fail("C19", "next-state", key, "state for the next iteration is not the refinement of the last result");
            return;
        }
    }

    if (out.killed || out.hang || out.threw) return;
    (void) first_segment;

    // the recorded state is the state the points were drawn with (scripted 64 bit engine only)
    if (p.eng != E_SCRIPT64) return;

    for (u64 k = out.base; k < out.results && k < v.results.size(); ++k)
    {
        if (p.integ == MULTI && state_after_overflow(v, k)) break;
        ResultView const& rv = v.results[k];
        IterCalls ic;
        collect_iteration(out, k, ic);

        for (auto const& pr : ic.recs)
        {
            Ctx const& c = *pr.first;
            CallRec const& r = *pr.second;
            u64 const numbers = p.dims + (p.integ == MULTI ? 1 : 0);
            if (r.epos < numbers) continue;

            if (p.integ == VEGAS)
            {
                for (u64 j = 0; j != p.dims; ++j)
                {
                    u64 const raw = raw_at(c, c.last_stream, r.epos - numbers + j);
                    ld const u = canonical_from_raw64(p.nt, raw);
                    ld const pos = round_to(p.nt, u * rv.pbins);
                    ld const fl = std::floor(pos);
                    u64 const b = c.bins[r.off_bin + j];
                    bool const edge = std::fabs(pos - std::round(pos)) <= 2 * eps * std::max<ld>(1, pos);
                    u64 const want_b = static_cast<u64>(fl);
                    if (!edge && b != want_b)
                    {
                        rep.fail("C19", "bin-not-from-recorded-grid", key, fmt(
                            "iteration %llu call %llu dimension %llu: canonical %.21Lg selects bin %llu, point reports %llu",
                            (unsigned long long) k, (unsigned long long) r.idx, (unsigned long long) j, u,
                            (unsigned long long) want_b, (unsigned long long) b));
                        return;
                    }
                    if (b >= rv.pbins) continue;
                    ld const left = rv.pdf[j * (rv.pbins + 1) + b];
                    ld const width = rv.pdf[j * (rv.pbins + 1) + b + 1] - left;
                    ld const x = left + (pos - static_cast<ld>(b)) * width;
                    ld const got = c.arena[r.off_u + j];
                    if (!(std::fabs(got - x) <= 4 * eps * (std::fabs(x) + rv.pbins * width) + 2 * denorm_of(p.nt)))
                    {
                        rep.fail("C19", "point-not-from-recorded-grid", key, fmt(
                            "iteration %llu call %llu dimension %llu: recorded grid maps %.21Lg to %.21Lg, integrand saw %.21Lg",
                            (unsigned long long) k, (unsigned long long) r.idx, (unsigned long long) j, u, x, got));
                        return;
                    }
                }
            }
            else
            {
                // weight from the recorded channel weights
                if (r.w_known && r.dens_calls != 0 && std::isfinite(r.w))
                {
                    ld total = 0;
                    for (std::size_t j = 0; j != rv.weights.size(); ++j) total += rv.weights[j] * c.arena[r.off_d + j];
                    ld const w = r.jac / total;
                    if (std::isfinite(w) && !(std::fabs(r.w - w) <= (8 + 2 * rv.weights.size()) * eps * std::fabs(w)))
                    {
                        rep.fail("C19", "weight-not-from-recorded-weights", key, fmt(
                            "iteration %llu call %llu: weight %.21Lg, recorded channel weights give %.21Lg",
                            (unsigned long long) k, (unsigned long long) r.idx, r.w, w));
                        return;
                    }
                }

                // channel from the recorded channel weights and the selector number
                ld const u = canonical_from_raw64(p.nt, r.last_raw);
                ld tot = 0;
                for (ld a : rv.weights) tot += a;
                ld cum = 0, lo = 0, hi = 0;
                for (std::size_t j = 0; j <= r.channel && j < rv.weights.size(); ++j)
                {
                    lo = cum;
                    cum += rv.weights[j];
                    hi = cum;
                }
                lo /= tot;
                hi /= tot;
                ld const tol = (4 + rv.weights.size()) * eps;
                if (!(u >= lo * (1 - tol) && u <= hi * (1 + tol)))
                {
                    rep.fail("C19", "channel-not-from-recorded-weights", key, fmt(
                        "iteration %llu call %llu: selector %.21Lg, channel %u covers [%.21Lg, %.21Lg] of the recorded weights",
                        (unsigned long long) k, (unsigned long long) r.idx, u, r.channel, lo, hi));
                    return;
                }
            }
        }
    }
}

// -------------------------------------------------------------------------------------------------

void oracle_segment(Plan const& p, RunCtl const& ctl, std::vector<u64> const& seg_calls,
    RunOut const& out, ChkptView const& after, IWorld const& world, Report& rep)
{
    oracle_c02(p, ctl, seg_calls, out, after, rep);
    oracle_c07_invariants(p, out, after, rep);
    oracle_c08(p, after, rep, out.base);
    oracle_c09_invariant(p, out, after, rep);
    oracle_c10(p, seg_calls, out, world, rep);
    oracle_c11(p, out, after, rep);
    oracle_c12_history(p, ctl, seg_calls, out, rep);
    oracle_c17(p, out, after, rep);
    oracle_c19(p, ctl, out, after, out.base == 0, rep);
}

// -------------------------------------------------------------------------------------------------
// C05

std::string compare_views(ChkptView const& a, ChkptView const& b, bool ignore_nz)
{
    auto num = [](char const* what, u64 k, ld x, ld y) {
        return fmt("%s of result %llu: %.21Lg (%La) became %.21Lg (%La)", what, (unsigned long long) k, x, x, y, y);
    };

    if (a.results.size() != b.results.size())
    {
        return fmt("%zu results became %zu", a.results.size(), b.results.size());
    }

    for (u64 k = 0; k != a.results.size(); ++k)
    {
        ResultView const& x = a.results[k];
        ResultView const& y = b.results[k];
        if (x.calls != y.calls) return fmt("calls of result %llu: %llu became %llu", (unsigned long long) k,
            (unsigned long long) x.calls, (unsigned long long) y.calls);
        if (!ignore_nz && x.nz != y.nz) return fmt("non_zero_calls of result %llu: %llu became %llu",
            (unsigned long long) k, (unsigned long long) x.nz, (unsigned long long) y.nz);
        if (x.fin != y.fin) return fmt("finite_calls of result %llu: %llu became %llu", (unsigned long long) k,
            (unsigned long long) x.fin, (unsigned long long) y.fin);
        if (!same_bits(x.sum, y.sum)) return num("sum", k, x.sum, y.sum);
        if (!same_bits(x.sumsq, y.sumsq)) return num("sum_of_squares", k, x.sumsq, y.sumsq);
        if (x.dists.size() != y.dists.size()) return fmt("result %llu: %zu distributions became %zu",
            (unsigned long long) k, x.dists.size(), y.dists.size());

        for (std::size_t d = 0; d != x.dists.size(); ++d)
        {
            DistView const& p = x.dists[d];
            DistView const& q = y.dists[d];
            if (p.name != q.name) return fmt("result %llu distribution %zu: name '%s' became '%s'",
                (unsigned long long) k, d, p.name.c_str(), q.name.c_str());
            if (p.bx != q.bx || p.by != q.by) return fmt("result %llu distribution %zu: bins %llux%llu became %llux%llu",
                (unsigned long long) k, d, (unsigned long long) p.bx, (unsigned long long) p.by,
                (unsigned long long) q.bx, (unsigned long long) q.by);
            if (!same_bits(p.xmin, q.xmin)) return num("x_min", k, p.xmin, q.xmin);
            if (!same_bits(p.ymin, q.ymin)) return num("y_min", k, p.ymin, q.ymin);
            if (!same_bits(p.sx, q.sx)) return num("bin_size_x", k, p.sx, q.sx);
            if (!same_bits(p.sy, q.sy)) return num("bin_size_y", k, p.sy, q.sy);
            if (p.bins.size() != q.bins.size()) return fmt("result %llu distribution %zu: %zu bin results became %zu",
                (unsigned long long) k, d, p.bins.size(), q.bins.size());
            for (std::size_t i = 0; i != p.bins.size(); ++i)
            {
                BinView const& s = p.bins[i];
                BinView const& t = q.bins[i];
                if (s.calls != t.calls || s.nz != t.nz || s.fin != t.fin)
                    return fmt("result %llu distribution %zu bin %zu: counters changed", (unsigned long long) k, d, i);
                if (!same_bits(s.sum, t.sum)) return num("bin sum", k, s.sum, t.sum);
                if (!same_bits(s.sumsq, t.sumsq)) return num("bin sum_of_squares", k, s.sumsq, t.sumsq);
            }
        }

        if (x.pbins != y.pbins || x.pdims != y.pdims) return fmt("grid shape of result %llu changed",
            (unsigned long long) k);
        if (x.pdf.size() != y.pdf.size()) return fmt("grid size of result %llu changed", (unsigned long long) k);
        for (std::size_t i = 0; i != x.pdf.size(); ++i)
        {
            if (!same_bits(x.pdf[i], y.pdf[i])) return num("grid boundary", k, x.pdf[i], y.pdf[i]);
        }
        if (x.adj.size() != y.adj.size()) return fmt("adjustment data size of result %llu changed", (unsigned long long) k);
        for (std::size_t i = 0; i != x.adj.size(); ++i)
        {
            if (!same_bits(x.adj[i], y.adj[i])) return num("adjustment datum", k, x.adj[i], y.adj[i]);
        }
        if (x.weights.size() != y.weights.size()) return fmt("channel count of result %llu changed", (unsigned long long) k);
        for (std::size_t i = 0; i != x.weights.size(); ++i)
        {
            if (!same_bits(x.weights[i], y.weights[i])) return num("channel weight", k, x.weights[i], y.weights[i]);
        }
    }

    if (!same_bits(a.alpha, b.alpha)) return fmt("alpha %.21Lg became %.21Lg", a.alpha, b.alpha);
    if (!same_bits(a.beta, b.beta)) return fmt("beta %.21Lg became %.21Lg", a.beta, b.beta);
    if (!same_bits(a.minw, b.minw)) return fmt("min_weight %.21Lg became %.21Lg", a.minw, b.minw);
    if (a.has_next != b.has_next) return "state for the next iteration appeared / disappeared";
    if (a.next.size() != b.next.size()) return fmt("state for the next iteration: %zu entries became %zu",
        a.next.size(), b.next.size());
    for (std::size_t i = 0; i != a.next.size(); ++i)
    {
        if (!same_bits(a.next[i], b.next[i])) return fmt("state for the next iteration, entry %zu: %.21Lg became %.21Lg",
            i, a.next[i], b.next[i]);
    }
    if (a.gen_texts != b.gen_texts) return "stored generators differ";
    if (a.gen_is_last && !b.gen_is_last) return "generator() is no longer the last stored generator";
    return std::string();
}

// -------------------------------------------------------------------------------------------------

// relative uncertainty of the cumulative relative errors when they are computed in the numeric type:
// the variance of an iteration is a difference of two nearly equal numbers when the error is tiny
ld rel_error_uncertainty(ChkptView const& v, int nt)
{
    ld worst = 1;
    for (auto const& r : v.results)
    {
        if (r.fin == 0 || r.calls < 2) continue;
        ld const N = r.calls;
        ld const a = r.sumsq / N, b = (r.sum / N) * (r.sum / N);
        ld const d = std::fabs(a - b);
        ld const cond = (d > 0) ? (a + b) / d : 1e30L;
        worst = std::max(worst, cond);
    }
    return 32 * eps_of(nt) * worst * (v.results.size() + 1);
}

// condition number of the combined estimate after each iteration: sum |t_i E_i| / |sum t_i E_i| (the
// estimates of the iterations may cancel)
std::vector<ld> reference_value_conditions(ChkptView const& v)
{
    std::vector<ld> cond;
    ld num = 0, den = 0;
    for (auto const& r : v.results)
    {
        if (r.fin != 0 && r.calls >= 2)
        {
            ld const N = r.calls;
            ld const var = (r.sumsq - r.sum * r.sum / N) / N / (N - 1);
            ld const t = 1 / var;
            num += std::fabs(t * (r.sum / N));
            den += t * (r.sum / N);
        }
        cond.push_back((den != 0 && std::isfinite(num / den)) ? std::fabs(num / den) : 1e30L);
    }
    return cond;
}

std::vector<ld> reference_rel_errors(ChkptView const& v)
{
    std::vector<ld> rho;
    ld inv = 0, est = 0;
    u64 nz = 0;

    for (auto const& r : v.results)
    {
        nz += r.fin;   // results without finite calls carry no information
        if (r.fin != 0)
        {
            ld const N = r.calls;
            ld const var = (r.sumsq - r.sum * r.sum / N) / N / (N - 1);
            ld const t = 1 / var;
            inv += t;
            est += t * (r.sum / N);
        }
        if (nz != 0)
        {
            ld const variance = 1 / inv;
            ld const e = est * variance;
            rho.push_back(std::sqrt(variance) / std::fabs(e));
        }
        else
        {
            rho.push_back(std::nanl(""));
        }
    }

    return rho;
}

}

namespace sim
{

void oracle_c19_first(Plan const& p, IWorld const& world, ChkptView const& v, Report& rep)
{
    if (p.integ == PLAIN || v.results.empty()) return;

    ld const eps = eps_of(p.nt);
    std::string const key = fmt("%s %s", integ_name(p.integ), nt_name(p.nt));
    std::vector<ld> const in = world.first_state_input(p);
    std::vector<ld> const& used = (p.integ == VEGAS) ? v.results[0].pdf : v.results[0].weights;

    if (used.size() != in.size())
    {
        rep.fail("C19", "first-state", key, fmt("first iteration used a state of %zu entries, expected %zu",
            used.size(), in.size()));
        return;
    }

    if (p.integ == VEGAS || p.wts == 0)
    {
        for (std::size_t i = 0; i != in.size(); ++i)
        {
            if (!same_bits(used[i], in[i]))
            {
                rep.fail("C19", "first-state", key, fmt(
                    "first iteration: entry %zu is %.21Lg, the %s has %.21Lg", i, used[i],
                    (p.grid == 1 || p.wts == 1) ? "user's state" : "uniform default", in[i]));
                return;
            }
        }
        return;
    }

    // user weights: normalised, with the documented floor
    std::size_t const n = in.size();
    ld s = 0;
    for (ld w : in) s += w;
    std::vector<ld> ref(n, 0.0L);
    ld s2 = 0;
    for (std::size_t i = 0; i != n; ++i)
    {
        if (in[i] == 0) continue;
        ref[i] = std::max(in[i] / s, p.minw == 0 ? 0.0L : round_to(p.nt, p.minw));
        s2 += ref[i];
    }
    for (std::size_t i = 0; i != n; ++i)
    {
        ref[i] /= s2;
        // subnormal weights: only "zero stays zero" is checked
        bool const coarse = !in_domain(p.nt, ref[i]);
        if ((in[i] == 0) != (used[i] == 0) ||
            (!coarse && !(std::fabs(used[i] - ref[i]) <= (n + 4) * eps * ref[i])))
        {
            rep.fail("C19", "first-state", key, fmt(
                "first iteration: weight %zu is %.21Lg, normalised user weight is %.21Lg", i, used[i], ref[i]));
            return;
        }
    }
}

}
