// hepsim - seeded pseudo random source. One splitmix64 stream decides everything in a plan.
#ifndef HEPSIM_PRNG_HPP
#define HEPSIM_PRNG_HPP

#include <cstdint>
#include <cstddef>
#include <vector>

namespace sim
{

inline std::uint64_t mix64(std::uint64_t z)
{
    z += 0x9e3779b97f4a7c15ULL;
    z = (z ^ (z >> 30)) * 0xbf58476d1ce4e5b9ULL;
    z = (z ^ (z >> 27)) * 0x94d049bb133111ebULL;
    return z ^ (z >> 31);
}

inline std::uint64_t mix2(std::uint64_t a, std::uint64_t b)
{
    return mix64(mix64(a) ^ (b * 0xd6e8feb86659fd93ULL + 0x2545f4914f6cdd1dULL));
}

class Rng
{
public:
    explicit Rng(std::uint64_t seed = 0) : s_(seed) {}

    std::uint64_t next()
    {
        s_ += 0x9e3779b97f4a7c15ULL;
        std::uint64_t z = s_;
        z = (z ^ (z >> 30)) * 0xbf58476d1ce4e5b9ULL;
        z = (z ^ (z >> 27)) * 0x94d049bb133111ebULL;
        return z ^ (z >> 31);
    }

    // uniform in [0, n), n > 0
    std::uint64_t below(std::uint64_t n) { return next() % n; }

    // uniform integer in [lo, hi]
    std::int64_t range(std::int64_t lo, std::int64_t hi)
    {
        return lo + static_cast<std::int64_t>(below(static_cast<std::uint64_t>(hi - lo + 1)));
    }

    // uniform in [0,1) with 53 bits
    double unit() { return static_cast<double>(next() >> 11) * (1.0 / 9007199254740992.0); }

    bool chance(double p) { return unit() < p; }

    template <typename T>
    T const& pick(std::vector<T> const& v) { return v[below(v.size())]; }

    template <typename T, std::size_t N>
    T const& pick(T const (&v)[N]) { return v[below(N)]; }

    Rng fork() { return Rng(next()); }

private:
    std::uint64_t s_;
};

// FNV-1a 64 for event log hashes
struct Fnv
{
    std::uint64_t h = 0xcbf29ce484222325ULL;

    void bytes(void const* p, std::size_t n)
    {
        auto const* c = static_cast<unsigned char const*>(p);
        for (std::size_t i = 0; i != n; ++i)
        {
            h ^= c[i];
            h *= 0x100000001b3ULL;
        }
    }

    void u64(std::uint64_t v) { bytes(&v, sizeof v); }

    void ld(long double v)
    {
        // hash the value, not the padding bytes of the 80 bit format
        unsigned char b[10];
        __builtin_memcpy(b, &v, 10);
        bytes(b, 10);
    }

    template <typename S>
    void str(S const& s) { u64(s.size()); bytes(s.data(), s.size()); }
};

}

#endif
