#include "plan.hpp"
#include "prng.hpp"

#include <cstdio>
#include <cstdlib>
#include <sstream>

namespace sim
{

char const* engine_name(int e)
{
    static char const* const n[] = {"script64", "script32", "minstd_rand0", "minstd_rand", "mt19937",
        "mt19937_64", "ranlux24_base", "ranlux48_base", "ranlux24", "ranlux48", "knuth_b", "script14"};
    return (e >= 0 && e < E_COUNT) ? n[e] : "?";
}

char const* integ_name(int i)
{
    static char const* const n[] = {"plain", "vegas", "multi_channel"};
    return (i >= 0 && i < 3) ? n[i] : "?";
}

char const* nt_name(int t)
{
    static char const* const n[] = {"float", "double", "long double"};
    return (t >= 0 && t < 3) ? n[t] : "?";
}

std::string ld_to_text(long double v)
{
    char buf[64];
    std::snprintf(buf, sizeof buf, "%La", v);
    return buf;
}

long double ld_from_text(std::string const& s)
{
    return std::strtold(s.c_str(), nullptr);
}

static std::string esc(std::string const& s)
{
    std::string r;
    char buf[8];
    for (unsigned char c : s)
    {
        if (c == '%' || c == ',' || c == ';' || c == '=' || c < 0x21 || c > 0x7e)
        {
            std::snprintf(buf, sizeof buf, "%%%02x", c);
            r += buf;
        }
        else
        {
            r += static_cast<char>(c);
        }
    }
    return r;
}

static std::string unesc(std::string const& s)
{
    std::string r;
    for (std::size_t i = 0; i < s.size(); ++i)
    {
        if (s[i] == '%' && i + 2 < s.size())
        {
            r += static_cast<char>(std::strtoul(s.substr(i + 1, 2).c_str(), nullptr, 16));
            i += 2;
        }
        else
        {
            r += s[i];
        }
    }
    return r;
}

static std::vector<std::string> split(std::string const& s, char d)
{
    std::vector<std::string> r;
    std::string cur;
    for (char c : s)
    {
        if (c == d)
        {
            r.push_back(cur);
            cur.clear();
        }
        else
        {
            cur += c;
        }
    }
    r.push_back(cur);
    return r;
}

std::string Plan::to_text() const
{
    std::ostringstream o;
    o << "hepsim-plan 1\n";
    o << "scn=" << scn << '\n';
    o << "seed=" << seed << '\n';
    o << "variant=" << variant << '\n';
    o << "integ=" << integ << '\n';
    o << "nt=" << nt << '\n';
    o << "eng=" << eng << '\n';
    o << "eseed=" << eseed << '\n';
    o << "dims=" << dims << '\n';
    o << "mapd=" << mapd << '\n';
    o << "bins=" << bins << '\n';
    o << "chan=" << chan << '\n';
    o << "calls=";
    for (std::size_t i = 0; i != calls.size(); ++i) o << (i ? "," : "") << calls[i];
    o << '\n';
    o << "alpha=" << ld_to_text(alpha) << '\n';
    o << "beta=" << ld_to_text(beta) << '\n';
    o << "minw=" << ld_to_text(minw) << '\n';
    o << "grid=" << grid << '\n';
    o << "gseed=" << gseed << '\n';
    o << "wts=" << wts << '\n';
    o << "wseed=" << wseed << '\n';
    o << "acc=" << acc << '\n';
    for (auto const& d : dists)
    {
        o << "dist=" << d.two_d << ',' << d.bx << ',' << d.by << ',' << ld_to_text(d.xmin) << ','
          << ld_to_text(d.xmax) << ',' << ld_to_text(d.ymin) << ',' << ld_to_text(d.ymax) << ','
          << d.proj << ',' << esc(d.name) << '\n';
    }
    o << "fk=" << fk << '\n';
    o << "fseed=" << fseed << '\n';
    o << "fq=" << fq << '\n';
    o << "fmag=" << fmag << '\n';
    o << "askw=" << askw << '\n';
    o << "mseed=" << mseed << '\n';
    o << "jexp=" << jexp << '\n';
    o << "cbk=" << cbk << '\n';
    o << "mode=" << mode << '\n';
    o << "target=" << ld_to_text(target) << '\n';
    o << "stop=" << stop << '\n';
    o << "P=" << P << '\n';
    o << "sseed=" << sseed << '\n';
    o << "rorder=" << rorder << '\n';
    o << "genmode=" << genmode << '\n';
    o << "ln=" << ln << '\n';
    for (auto const& f : faults)
    {
        o << "fault=" << f.kind << ',' << f.a << ',' << f.b << ',' << f.c << ',' << f.v << '\n';
    }
    for (auto const& p : ops)
    {
        o << "op=" << p.kind << ',' << p.a << '\n';
    }
    o << "aux=";
    for (std::size_t i = 0; i != aux.size(); ++i) o << (i ? "," : "") << aux[i];
    o << '\n';
    o << "end\n";
    return o.str();
}

bool Plan::from_text(std::string const& text, Plan& p, std::string& err)
{
    p = Plan();
    std::istringstream in(text);
    std::string line;
    if (!std::getline(in, line) || line != "hepsim-plan 1")
    {
        err = "missing header";
        return false;
    }
    bool ended = false;
    auto u = [](std::string const& s) { return std::strtoull(s.c_str(), nullptr, 10); };
    auto i = [](std::string const& s) { return static_cast<int>(std::strtol(s.c_str(), nullptr, 10)); };
    while (std::getline(in, line))
    {
        if (line == "end")
        {
            ended = true;
            break;
        }
        if (line.empty() || line[0] == '#') continue;
        auto eq = line.find('=');
        if (eq == std::string::npos)
        {
            err = "bad line: " + line;
            return false;
        }
        std::string k = line.substr(0, eq), v = line.substr(eq + 1);
        if (k == "scn") p.scn = v;
        else if (k == "seed") p.seed = u(v);
        else if (k == "variant") p.variant = u(v);
        else if (k == "integ") p.integ = i(v);
        else if (k == "nt") p.nt = i(v);
        else if (k == "eng") p.eng = i(v);
        else if (k == "eseed") p.eseed = u(v);
        else if (k == "dims") p.dims = u(v);
        else if (k == "mapd") p.mapd = u(v);
        else if (k == "bins") p.bins = u(v);
        else if (k == "chan") p.chan = u(v);
        else if (k == "calls")
        {
            if (!v.empty()) for (auto const& s : split(v, ',')) p.calls.push_back(u(s));
        }
        else if (k == "alpha") p.alpha = ld_from_text(v);
        else if (k == "beta") p.beta = ld_from_text(v);
        else if (k == "minw") p.minw = ld_from_text(v);
        else if (k == "grid") p.grid = i(v);
        else if (k == "gseed") p.gseed = u(v);
        else if (k == "wts") p.wts = i(v);
        else if (k == "wseed") p.wseed = u(v);
        else if (k == "acc") p.acc = i(v);
        else if (k == "dist")
        {
            auto f = split(v, ',');
            if (f.size() != 9)
            {
                err = "bad dist";
                return false;
            }
            DistSpec d;
            d.two_d = i(f[0]);
            d.bx = u(f[1]);
            d.by = u(f[2]);
            d.xmin = ld_from_text(f[3]);
            d.xmax = ld_from_text(f[4]);
            d.ymin = ld_from_text(f[5]);
            d.ymax = ld_from_text(f[6]);
            d.proj = i(f[7]);
            d.name = unesc(f[8]);
            p.dists.push_back(d);
        }
        else if (k == "fk") p.fk = i(v);
        else if (k == "fseed") p.fseed = u(v);
        else if (k == "fq") p.fq = u(v);
        else if (k == "fmag") p.fmag = i(v);
        else if (k == "askw") p.askw = i(v);
        else if (k == "mseed") p.mseed = u(v);
        else if (k == "jexp") p.jexp = i(v);
        else if (k == "cbk") p.cbk = i(v);
        else if (k == "mode") p.mode = i(v);
        else if (k == "target") p.target = ld_from_text(v);
        else if (k == "stop") p.stop = std::strtoll(v.c_str(), nullptr, 10);
        else if (k == "P") p.P = u(v);
        else if (k == "sseed") p.sseed = u(v);
        else if (k == "rorder") p.rorder = i(v);
        else if (k == "genmode") p.genmode = i(v);
        else if (k == "ln") p.ln = u(v);
        else if (k == "fault")
        {
            auto f = split(v, ',');
            if (f.size() != 5)
            {
                err = "bad fault";
                return false;
            }
            Fault x;
            x.kind = i(f[0]);
            x.a = u(f[1]);
            x.b = u(f[2]);
            x.c = u(f[3]);
            x.v = u(f[4]);
            p.faults.push_back(x);
        }
        else if (k == "op")
        {
            auto f = split(v, ',');
            if (f.size() != 2)
            {
                err = "bad op";
                return false;
            }
            Op x;
            x.kind = i(f[0]);
            x.a = u(f[1]);
            p.ops.push_back(x);
        }
        else if (k == "aux")
        {
            if (!v.empty()) for (auto const& s : split(v, ',')) p.aux.push_back(u(s));
        }
        else
        {
            err = "unknown key " + k;
            return false;
        }
    }
    if (!ended)
    {
        err = "truncated plan";
        return false;
    }
    return true;
}

std::uint64_t Plan::total_calls() const
{
    std::uint64_t s = 0;
    for (auto c : calls) s += c;
    return s;
}

std::uint64_t Plan::shape_hash() const
{
    Plan q = *this;
    q.seed = 0;
    Fnv h;
    h.str(q.to_text());
    return h.h;
}

}
